/* Geometry driver (C08; boundary/length clauses of C10, vertexToLatLng clause of C11).
 *   drv_geo cells <wordsfile> <out>  |  strata <tier> <seed> <out>  |  areasum <res> <out>  |  measure <tier> <seed>
 * Coordinates are projected onto integer vertex ids (points within 1e-12 rad get the same id, ids local to one
 * event) and onto integer deviations; the trace specification judges the structure. */
#include "vtrace.h"
#include "vgeom.h"

static double worst_area_rel = 0, worst_len_rel = 0, worst_km = 0, worst_shared = 0;
static long to_e(double x, double unit, long cap) { double v = x / unit; if (!(v < (double)cap)) v = (double)cap; if (v < 0) v = 0; return (long)ceil(v); }

static void ids_of(VidSet *vs, const CellBoundary *cb) { fputc('[', vt_out); for (int i = 0; i < cb->numVerts; i++) fprintf(vt_out, "%s%d", i ? "," : "", vid_of(vs, &cb->verts[i])); fputc(']', vt_out); }
static double path_len(const CellBoundary *cb) { long double s = 0; for (int i = 0; i + 1 < cb->numVerts; i++) s += v3_angle(v3_of(&cb->verts[i]), v3_of(&cb->verts[i + 1])); return (double)s; }

static void ev_boundary(H3Index h) {
    CellBoundary cb; LatLng c; memset(&cb, 0, sizeof cb);
    H3Error r = cellToBoundary(h, &cb), rc = cellToLatLng(h, &c);
    VidSet vs; vs.n = 0; vs.tol = 1e-12;
    fputs("{\"e\":\"boundaryNbhd\",\"h\":", vt_out); vt_word(h); fprintf(vt_out, ",\"r\":%u,\"rc\":%u,\"n\":%d,\"ids\":", r, rc, cb.numVerts); ids_of(&vs, &cb);
    /* orientation: every (v_i, v_i+1, centre) triple counter-clockwise -> ccw order and centre strictly inside */
    V3 vc = v3_of(&c); int ccw = 1; long double area = 0;
    for (int i = 0; i < cb.numVerts; i++) { V3 a = v3_of(&cb.verts[i]), b = v3_of(&cb.verts[(i + 1) % cb.numVerts]); if (!(tri_det_l(a, b, vc) > 0)) ccw = 0; area += tri_area_l(a, b, vc); }
    double ar = 0, akm = 0, am = 0; H3Error ra = cellAreaRads2(h, &ar); cellAreaKm2(h, &akm); cellAreaM2(h, &am);
    double rel = fabs(ar - (double)area) / (double)area; if (rel > worst_area_rel) worst_area_rel = rel;
    double R = 6371.007180918475; double kmrel = fabs(akm / (ar * R * R) - 1) + fabs(am / (akm * 1e6) - 1); if (kmrel > worst_km) worst_km = kmrel;
    fprintf(vt_out, ",\"ccw\":%d,\"ra\":%u,\"adev\":%ld,\"kmdev\":%ld", ccw, ra, to_e(rel, 1e-12, 1000000000L), to_e(kmrel, 1e-16, 1000000000L));
    /* topological corners: vertexToLatLng of every slot of cellToVertexes */
    H3Index vx[6] = {0}; cellToVertexes(h, vx);
    fputs(",\"tv\":[", vt_out); for (int i = 0; i < 6; i++) { LatLng g; int id = 0; if (vx[i] && !vertexToLatLng(vx[i], &g)) id = vid_of(&vs, &g); fprintf(vt_out, "%s%d", i ? "," : "", id); } fputc(']', vt_out);
    /* neighbours: their boundaries and the two directed edges */
    H3Index d[7] = {0}; gridDisk(h, 1, d);
    fputs(",\"nb\":[", vt_out); int first = 1;
    for (int i = 0; i < 7; i++) if (d[i] && d[i] != h) {
        CellBoundary nb; memset(&nb, 0, sizeof nb); cellToBoundary(d[i], &nb);
        fprintf(vt_out, "%s{\"b\":", first ? "" : ","); first = 0; vt_word(d[i]); fputs(",\"ids\":", vt_out); ids_of(&vs, &nb);
        H3Index e1 = 0, e2 = 0; CellBoundary b1, b2; memset(&b1, 0, sizeof b1); memset(&b2, 0, sizeof b2);
        H3Error r1 = cellsToDirectedEdge(h, d[i], &e1), r2 = cellsToDirectedEdge(d[i], h, &e2);
        H3Error q1 = r1 ? 99 : directedEdgeToBoundary(e1, &b1), q2 = r2 ? 99 : directedEdgeToBoundary(e2, &b2);
        fprintf(vt_out, ",\"q1\":%u,\"q2\":%u,\"eb\":", q1, q2); ids_of(&vs, &b1); fputs(",\"ebr\":", vt_out); ids_of(&vs, &b2);
        double l1 = 0, lk = 0, lm = 0; H3Error rl = r1 ? 99 : edgeLengthRads(e1, &l1); if (!r1) { edgeLengthKm(e1, &lk); edgeLengthM(e1, &lm); }
        double pl = path_len(&b1); double lrel = pl > 0 ? fabs(l1 - pl) / pl : 1; if (!rl && lrel > worst_len_rel) worst_len_rel = lrel;
        double lkrel = l1 > 0 ? fabs(lk / (l1 * R) - 1) + fabs(lm / (lk * 1000) - 1) : 1;
        fprintf(vt_out, ",\"rl\":%u,\"ldev\":%ld,\"lkdev\":%ld}", rl, to_e(lrel, 1e-12, 1000000000L), to_e(lkrel, 1e-16, 1000000000L));
    }
    fputs("]}\n", vt_out);
}

/* the cell's own boundary only (cheap): vertex count, distinctness, orientation */
static void ev_boundary_lite(H3Index h) {
    CellBoundary cb; LatLng c; memset(&cb, 0, sizeof cb);
    H3Error r = cellToBoundary(h, &cb), rc = cellToLatLng(h, &c);
    VidSet vs; vs.n = 0; vs.tol = 1e-12;
    fputs("{\"e\":\"boundaryLite\",\"h\":", vt_out); vt_word(h); fprintf(vt_out, ",\"r\":%u,\"rc\":%u,\"n\":%d,\"ids\":", r, rc, cb.numVerts); ids_of(&vs, &cb);
    V3 vc = v3_of(&c); int ccw = 1;
    for (int i = 0; i < cb.numVerts; i++) { V3 a = v3_of(&cb.verts[i]), b = v3_of(&cb.verts[(i + 1) % cb.numVerts]); if (!(tri_det_l(a, b, vc) > 0)) ccw = 0; }
    fprintf(vt_out, ",\"ccw\":%d}\n", ccw);
}

/* concurrent mode: T threads observe different cells at the same time (cellToBoundary, cellToLatLng, cellAreaRads2 are functions
 * of their argument also then); each thread records into its own memory stream */
#include <pthread.h>
typedef struct { CellVec cells; char *buf; size_t len; } GeoTh;
static pthread_barrier_t g_bar;
static void *geo_worker(void *arg) {
    GeoTh *t = arg; vt_out = open_memstream(&t->buf, &t->len);
    pthread_barrier_wait(&g_bar);
    for (int rep = 0; rep < 3; rep++) for (int64_t i = 0; i < t->cells.n; i++) { if ((i + rep) % 3 == 0) ev_boundary(t->cells.v[i]); else ev_boundary_lite(t->cells.v[i]); }
    fclose(vt_out); vt_out = NULL; return NULL;
}
static void geo_threads(int quick, const char *path) {
    enum { T = 8 }; GeoTh th[T]; pthread_t id[T]; memset(th, 0, sizeof th);
    for (int t = 0; t < T; t++) for (int res = 1; res <= 15; res++) { cv_pentagon_strata(&th[t].cells, res, 1); cv_random_cells(&th[t].cells, res, quick ? 6 : 40); if (res >= 3) cv_seam_cells(&th[t].cells, res, quick ? 1 : 4); }
    pthread_barrier_init(&g_bar, NULL, T);
    for (int t = 0; t < T; t++) pthread_create(&id[t], NULL, geo_worker, &th[t]);
    for (int t = 0; t < T; t++) pthread_join(id[t], NULL);
    vt_open(path);
    for (int t = 0; t < T; t++) { fwrite(th[t].buf, 1, th[t].len, vt_out); free(th[t].buf); cv_free(&th[t].cells); }
}

int main(int argc, char **argv) {
    if (argc == 5 && !strcmp(argv[1], "threads")) { vt_seed(strtoull(argv[3], 0, 10) + 88); geo_threads(argv[2][0] == 'q', argv[4]); vt_close(); return 0; }
    if (argc == 4 && !strcmp(argv[1], "cells")) {
        FILE *in = fopen(argv[2], "r"); if (!in) return 2; vt_open(argv[3]); uint64_t h;
        while (fscanf(in, "%" SCNx64, &h) == 1) ev_boundary(h);
        fclose(in);
    } else if (argc == 5 && !strcmp(argv[1], "strata")) {
        int quick = argv[2][0] == 'q'; vt_seed(strtoull(argv[3], 0, 10) + 8); vt_open(argv[4]);
        for (int res = 3; res <= 15; res++) {
            CellVec cv = {0};
            cv_pentagon_strata(&cv, res, quick ? 2 : 4); cv_seam_cells(&cv, res, quick ? 12 : 150); cv_random_cells(&cv, res, quick ? 15 : 150); cv_sparse_digit_sample(&cv, res, quick ? 6 : 40); cv_coarse_boundary_sample(&cv, res, quick ? 6 : 40); if (res >= 8 || !quick) cv_face_centre_cells(&cv, res, quick ? 1 : 2);
            cv_polar_cells(&cv, res); cv_antimeridian_cells(&cv, res, quick ? 4 : 24);
            if (res == 5 || (!quick && res <= 7)) cv_pentagon_edge_strip(&cv, res, 1, 0);      /* complete strips along the icosahedron edges inside the pentagons' base cells */
            for (int64_t i = 0; i < cv.n; i++) ev_boundary(cv.v[i]);
            cv_free(&cv);
            /* dense walk along the icosahedron edges: only the cell's own boundary */
            if (res >= 4) { CellVec dv = {0}; cv_seam_cells(&dv, res, quick ? ((res % 2) ? 500 : 100) : 4000);   /* distortion vertices exist only at odd resolutions */ for (int64_t i = 0; i < dv.n; i++) if (i == 0 || dv.v[i] != dv.v[i - 1]) ev_boundary_lite(dv.v[i]); cv_free(&dv); }
        }
        /* chains: the cells containing one point at successive resolutions (the 20 face centres, the 12 icosahedron vertices, random
           points), walked downwards and upwards; before each observed call the library is primed with a call on a related cell
           (parent, centre child, a neighbour, the cell itself): the result must not depend on what was asked before */
        { H3Index p0[12]; getPentagons(0, p0); int npts = quick ? 40 : 120;
          for (int k = 0; k < npts; k++) {
            LatLng pt; if (k < 20) { pt.lat = VERIF_FACE_CENTER[k][0]; pt.lng = VERIF_FACE_CENTER[k][1]; } else if (k < 32) cellToLatLng(p0[k - 20], &pt); else { pt.lat = asin(2 * vt_rand01() - 1); pt.lng = (vt_rand01() - 0.5) * 2 * M_PI; }
            for (int pass = 0; pass < 2; pass++) for (int step = 0; step <= 15; step++) {
                int res = pass ? 15 - step : step; H3Index h; if (latLngToCell(&pt, res, &h)) continue;
                H3Index rel = h; int which = (k + step + pass) % 4;
                if (which == 0 && res > 0) cellToParent(h, res - 1, &rel); else if (which == 1 && res < 15) cellToCenterChild(h, res + 1, &rel); else if (which == 2) { H3Index d[7] = {0}; gridDisk(h, 1, d); rel = d[1 + (k % 5)] ? d[1 + (k % 5)] : h; }
                CellBoundary prime; cellToBoundary(rel, &prime);                       /* priming call, not observed */
                if (res >= 1 && (quick ? (k + step) % 3 == 0 : 1)) ev_boundary(h); else ev_boundary_lite(h);
                if (res >= 1) { cellToBoundary(rel, &prime); double a; CellBoundary own; memset(&own, 0, sizeof own); cellToBoundary(h, &own);   /* primed own boundary vs the same call repeated */
                    CellBoundary again; memset(&again, 0, sizeof again); cellToBoundary(h, &again); (void)a;
                    fputs("{\"e\":\"boundaryTwice\",\"h\":", vt_out); vt_word(h); fprintf(vt_out, ",\"same\":%d}\n", own.numVerts == again.numVerts && !memcmp(own.verts, again.verts, sizeof(LatLng) * (own.numVerts > 0 && own.numVerts <= 10 ? own.numVerts : 0))); }
            } } }
    } else if (argc == 4 && !strcmp(argv[1], "areasum")) {
        int res = atoi(argv[2]); vt_open(argv[3]); CellVec cv = {0}; cv_all_cells(&cv, res);
        fprintf(vt_out, "{\"e\":\"areaStart\",\"res\":%d}\n", res);
        for (int64_t i = 0; i < cv.n; i++) { double a = 0; H3Error r = cellAreaRads2(cv.v[i], &a); fputs("{\"e\":\"area\",\"h\":", vt_out); vt_word(cv.v[i]); fprintf(vt_out, ",\"r\":%u,\"a\":", r); vt_big((int64_t)llround(a * 1e18)); fputs("}\n", vt_out); }
        fprintf(vt_out, "{\"e\":\"areaTotal\",\"res\":%d,\"n\":", res); vt_big(cv.n); fputs("}\n", vt_out);
        cv_free(&cv);
    } else return 2;
    fprintf(stderr, "worst: area_rel=%.3g len_rel=%.3g km=%.3g\n", worst_area_rel, worst_len_rel, worst_km);
    vt_close(); return 0;
}
