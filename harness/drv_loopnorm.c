/* Replays the rectangle loops of spec/H3LoopNorm.tla into the real loop algorithms (polygonAlgos.h instantiated for GeoLoop and
 * for LinkedGeoLoop): bounding box, point-in-loop at latitude 0 for every odd longitude unit, winding of the loop and of its
 * reverse.   drv_loopnorm run <quick|thorough> <seed> <out> */
#include "vtrace.h"
#if defined(__has_include)
#if __has_include("polygon.h") && __has_include("linkedGeo.h") && __has_include("bbox.h")
#include "polygon.h"
#include "linkedGeo.h"
#include "bbox.h"
#define HAVE_LOOPS 1
#endif
#endif
#ifndef HAVE_LOOPS
int main(int argc, char **argv) { if (argc < 5) return 2; vt_open(argv[4]); fputs("{\"e\":\"loopNormAbsent\"}\n", vt_out); vt_close(); return 0; }
#else
/* internal functions: weak, so that a refactoring that removes one disables this binding instead of breaking the build */
extern __typeof(bboxFromGeoLoop) bboxFromGeoLoop __attribute__((weak));
extern __typeof(pointInsideGeoLoop) pointInsideGeoLoop __attribute__((weak));
extern __typeof(isClockwiseGeoLoop) isClockwiseGeoLoop __attribute__((weak));
extern __typeof(bboxFromLinkedGeoLoop) bboxFromLinkedGeoLoop __attribute__((weak));
extern __typeof(pointInsideLinkedGeoLoop) pointInsideLinkedGeoLoop __attribute__((weak));
extern __typeof(isClockwiseLinkedGeoLoop) isClockwiseLinkedGeoLoop __attribute__((weak));
extern __typeof(addLinkedCoord) addLinkedCoord __attribute__((weak));
extern __typeof(destroyLinkedGeoLoop) destroyLinkedGeoLoop __attribute__((weak));
#define MM 18
static double U(int x) { return x * M_PI / MM; }
static int wrapu(int x) { return ((x + MM) % (2 * MM) + 2 * MM) % (2 * MM) - MM; }
static int units(double lng) { return (int)lround(lng * MM / M_PI); }
static int build(LatLng *v, int w0, int W, int rev) {
    int n = 0; for (int i = 0; i <= W / 2; i++) { v[n].lat = -0.3; v[n].lng = U(wrapu(w0 + 2 * i)); n++; }
    for (int i = 0; i <= W / 2; i++) { v[n].lat = 0.3; v[n].lng = U(wrapu(w0 + W - 2 * i)); n++; }
    if (rev) for (int i = 0; i < n / 2; i++) { LatLng t = v[i]; v[i] = v[n - 1 - i]; v[n - 1 - i] = t; }
    return n;
}
int main(int argc, char **argv) {
    if (argc < 5 || strcmp(argv[1], "run")) return 2;
    int quick = argv[2][0] == 'q'; vt_seed(strtoull(argv[3], 0, 10)); vt_open(argv[4]);
    if (!bboxFromGeoLoop || !pointInsideGeoLoop || !isClockwiseGeoLoop || !bboxFromLinkedGeoLoop || !pointInsideLinkedGeoLoop || !isClockwiseLinkedGeoLoop || !addLinkedCoord || !destroyLinkedGeoLoop) {
        fputs("{\"e\":\"loopNormAbsent\"}\n", vt_out); vt_close(); return 0; }
    for (int typ = 0; typ < 2; typ++) for (int w0 = -MM; w0 <= MM - 2; w0 += 2) for (int W = 2; W <= 2 * MM - 2; W += 2) {
        { int seam0 = w0 + W >= MM, zero0 = 0; for (int d = 0; d <= W; d++) if (wrapu(w0 + d) == 0) zero0 = 1;
          if (quick && seam0 && zero0 && (w0 + W) % 5) continue; }          /* quick: a fifth of the loops across both meridians (the known finding) */
        LatLng v[4 * MM + 8], r[4 * MM + 8]; int n = build(v, w0, W, 0); build(r, w0, W, 1);
        BBox bb; int inside[MM + 1]; int cw, cwrev;
        if (typ == 0) {
            GeoLoop g = {n, v}, gr = {n, r}; bboxFromGeoLoop(&g, &bb);
            for (int k = 0; k < MM; k++) { LatLng p = {0.0, U(2 * k + 1 - MM)}; inside[k] = pointInsideGeoLoop(&g, &bb, &p); }
            cw = isClockwiseGeoLoop(&g); cwrev = isClockwiseGeoLoop(&gr);
        } else {
            LinkedGeoLoop g = {0}, gr = {0}; for (int i = 0; i < n; i++) { addLinkedCoord(&g, &v[i]); addLinkedCoord(&gr, &r[i]); }
            bboxFromLinkedGeoLoop(&g, &bb);
            for (int k = 0; k < MM; k++) { LatLng p = {0.0, U(2 * k + 1 - MM)}; inside[k] = pointInsideLinkedGeoLoop(&g, &bb, &p); }
            cw = isClockwiseLinkedGeoLoop(&g); cwrev = isClockwiseLinkedGeoLoop(&gr);
            destroyLinkedGeoLoop(&g); destroyLinkedGeoLoop(&gr);
        }
        int seam = w0 + W >= MM, zero = 0; for (int d = 0; d <= W; d++) if (wrapu(w0 + d) == 0) zero = 1;
        fprintf(vt_out, "{\"e\":\"loopNorm\",\"typ\":\"%s\",\"w0\":%d,\"W\":%d,\"bw\":%d,\"be\":%d,\"cw\":%d,\"cwrev\":%d,\"bm\":%d,\"inside\":[", typ ? "linked" : "geo", w0, W, units(bb.west), units(bb.east), cw, cwrev, seam && zero);
        for (int k = 0; k < MM; k++) fprintf(vt_out, "%s%d", k ? "," : "", inside[k]);
        fputs("]}\n", vt_out);
    }
    vt_close(); return 0;
}
#endif
