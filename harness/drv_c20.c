/* C20 driver: h3ToString / stringToH3 events.  drv_c20 <quick|thorough> <seed> <out> [wordsfile] */
#include "vtrace.h"
#include <errno.h>

static void bytes(const unsigned char *b, size_t n) {
    fputc('[', vt_out); for (size_t i = 0; i < n; i++) fprintf(vt_out, "%s%u", i ? "," : "", b[i]); fputc(']', vt_out);
}
static void ev_tostring(uint64_t h, size_t sz, unsigned char fill) {
    char *buf = gb_alloc(sz ? sz : 1, 1, fill);
    H3Error r = h3ToString(h, buf, sz);
    fputs("{\"e\":\"h3ToString\",\"h\":", vt_out); vt_word(h);
    fprintf(vt_out, ",\"sz\":%zu,\"fill\":%u,\"r\":%u,\"guard\":%d,\"buf\":", sz, fill, r, gb_ok(buf));
    bytes((unsigned char *)buf, sz); fputs("}\n", vt_out);
    if (r == 0 && sz >= 17) {
        H3Index o = VT_SENTINEL; H3Error r2 = stringToH3(buf, &o);
        fputs("{\"e\":\"roundtrip\",\"h\":", vt_out); vt_word(h); fputs(",\"s\":", vt_out);
        bytes((unsigned char *)buf, strlen(buf)); fprintf(vt_out, ",\"r\":%u,\"o\":", r2); vt_word(o); fputs("}\n", vt_out);
    }
    gb_free(buf);
}
static void ev_parse(const char *s) {
    H3Index o = VT_SENTINEL; H3Error r = stringToH3(s, &o);
    fputs("{\"e\":\"stringToH3\",\"s\":", vt_out); bytes((const unsigned char *)s, strlen(s));
    fprintf(vt_out, ",\"r\":%u,\"o\":", r); vt_word(o); fputs("}\n", vt_out);
}
/* concurrent mode: 8 threads format (and parse back) their own words into their own buffers at the same time; the answer is a
 * function of the arguments whatever other threads are doing (per-thread event streams, judged by the same trace spec) */
#include <pthread.h>
typedef struct { uint64_t *w; int n; char *buf; size_t len; } StrTh;
static pthread_barrier_t g_bar;
static void *str_worker(void *arg) {
    StrTh *t = arg; vt_out = open_memstream(&t->buf, &t->len);
    pthread_barrier_wait(&g_bar);
    for (int i = 0; i < t->n; i++) ev_tostring(t->w[i], 17 + (size_t)(t->w[i] % 5), 0xEE);
    fclose(vt_out); vt_out = NULL; return NULL;
}
static void str_threads(int quick, const char *path) {
    enum { T = 8 }; StrTh th[T]; pthread_t id[T]; memset(th, 0, sizeof th);
    for (int t = 0; t < T; t++) { th[t].n = quick ? 2500 : 40000; th[t].w = calloc(th[t].n, 8);
        for (int i = 0; i < th[t].n; i++) th[t].w[i] = i % 3 == 0 ? vt_random_cell((int)vt_randn(16)) : i % 3 == 1 ? vt_rand() >> vt_randn(64) : vt_rand(); }
    pthread_barrier_init(&g_bar, NULL, T);
    for (int t = 0; t < T; t++) pthread_create(&id[t], NULL, str_worker, &th[t]);
    for (int t = 0; t < T; t++) pthread_join(id[t], NULL);
    vt_open(path);
    for (int t = 0; t < T; t++) { fwrite(th[t].buf, 1, th[t].len, vt_out); (free)(th[t].buf); free(th[t].w); }
}
int main(int argc, char **argv) {
    if (argc == 5 && !strcmp(argv[1], "threads")) { vt_seed(strtoull(argv[3], 0, 10) + 2020); str_threads(argv[2][0] == 'q', argv[4]); vt_close(); return 0; }
    if (argc < 4) return 2;
    int quick = argv[1][0] == 'q'; vt_seed(strtoull(argv[2], 0, 10) + 20); vt_open(argv[3]);
    /* every bit position, every leading-zero length x random tails, zero, all ones */
    uint64_t fixed[] = {0, 1, ~0ULL, 0x8000000000000000ULL, 0x7fffffffffffffffULL, 0xfULL, 0x10ULL, 0xabcdef0123456789ULL};
    for (unsigned i = 0; i < sizeof fixed / 8; i++) for (size_t sz = 0; sz <= 32; sz++) ev_tostring(fixed[i], sz, 0xEE);
    for (int b = 0; b < 64; b++) { ev_tostring(1ULL << b, 17, 0xEE); ev_tostring((1ULL << b) - 1, 17 + vt_randn(16), 0x11); }
    for (int lz = 0; lz <= 64; lz++) for (int t = 0; t < (quick ? 4 : 40); t++) {
        uint64_t h = lz == 64 ? 0 : ((vt_rand() | 0x8000000000000000ULL) >> lz);
        ev_tostring(h, vt_randn(3) ? 17 + vt_randn(16) : vt_randn(17), (unsigned char)vt_randn(256));
    }
    /* valid cells, edges, vertexes from the API */
    for (int i = 0; i < (quick ? 1500 : 30000); i++) {
        H3Index c = vt_random_cell((int)vt_randn(16));
        ev_tostring(c, 17, 0xEE);
        H3Index es[6], vs[6];
        if (i % 8 == 0 && !originToDirectedEdges(c, es)) for (int j = 0; j < 6; j++) if (es[j]) ev_tostring(es[j], 18, 0xEE);
        if (i % 8 == 1 && !cellToVertexes(c, vs)) for (int j = 0; j < 6; j++) if (vs[j]) ev_tostring(vs[j], 32, 0xEE);
        ev_tostring(vt_mutate_word(c), 17, 0);
        ev_tostring(vt_rand(), vt_randn(33), 0xEE);
    }
    /* parser: short byte strings */
    const char *fx[] = {"", " ", "g", "x", "0x", "0x1f", "-1", "+f", " 8a", "\t\n1", "zz8", "8zz", "ffffffffffffffff", "FFFF", "AbC",
                        ".5", "_1", "#ff", "1 2", "0", "00000000000000000", "123456789abcdef01", "8928308280fffff", "\xff", "\x80\x31"};
    for (unsigned i = 0; i < sizeof fx / sizeof fx[0]; i++) ev_parse(fx[i]);
    const char alpha[] = "0123456789abcdefABCDEFgxX+-. \t\n_#zZ/:@`G";
    for (int i = 0; i < (quick ? 3000 : 30000); i++) {
        char s[24]; int n = (int)vt_randn(19);
        for (int j = 0; j < n; j++) s[j] = vt_randn(5) ? alpha[vt_randn(sizeof alpha - 1)] : (char)(1 + vt_randn(255));
        s[n] = 0; ev_parse(s);
    }
    /* history: the answers must not depend on what was parsed before or on the caller's errno */
    for (int i = 0; i < (quick ? 600 : 6000); i++) {
        static const char *junk[] = {"123456789abcdef012", "ffffffffffffffffffffffff", "", "zz", "1e999", "-", "0x", "99999999999999999999"};
        ev_parse(junk[vt_randn(8)]);
        if (vt_randn(2)) errno = vt_randn(2) ? ERANGE : EINVAL;
        ev_tostring(vt_randn(2) ? vt_random_cell((int)vt_randn(16)) : vt_rand(), 17 + vt_randn(8), 0xEE);
        if (vt_randn(3) == 0) { errno = ERANGE; ev_parse("8928308280fffff"); ev_parse("0"); ev_parse("ffffffffffffffff"); }
    }
    vt_close();
    return 0;
}
