/* Tracer + input strata shared by all drivers.  The drivers call only the public API
 * (h3api.h) and copy what it returned into ndjson events; nothing here judges a result. */
#ifndef VTRACE_H
#define VTRACE_H
#include <inttypes.h>
#include <math.h>
#include <stdbool.h>
#include <stdint.h>
#include <stdio.h>
#include <stdlib.h>
#include <string.h>

#include "h3api.h"

extern __thread FILE *vt_out;     /* per thread: a driver thread may redirect its events into a memory stream */
void vt_open(const char *path);
void vt_close(void);
/* 64-bit word as [top19, w1, w2, w3] (TLC integers are 32-bit) */
void vt_word(uint64_t h);
void vt_words(const uint64_t *hs, int64_t n);          /* [[..],[..]] all entries */
void vt_words_nz(const uint64_t *hs, int64_t n);       /* only non-zero entries */
void vt_i64(int64_t v);
void vt_big(int64_t v);                                 /* {"s":sign,"l":[5 limbs base 16807]} */
#define VT_SENTINEL 0xAAAAAAAAAAAAAAAAULL                                 /* [hi, lo] with lo 30 bits, sign in hi */

/* deterministic RNG */
void vt_seed(uint64_t s);
uint64_t vt_rand(void);
uint64_t vt_randn(uint64_t n);
double vt_rand01(void);

/* strata */
typedef struct { uint64_t *v; int64_t n, cap; } CellVec;
void cv_push(CellVec *c, uint64_t h);
void cv_free(CellVec *c);
void cv_all_cells(CellVec *c, int res);                 /* every cell of a resolution */
void cv_pentagon_strata(CellVec *c, int res, int k);    /* k-disks of the 12 pentagons */
void cv_random_cells(CellVec *c, int res, int n);       /* uniform digits (valid cells) */
void cv_seam_cells(CellVec *c, int res, int nPerEdge);  /* cells along icosahedron edges */
void cv_sparse_digit_cells(CellVec *c, int res, int quick); /* all digits 0 except one / trailing zeros after a random prefix */
void cv_sparse_digit_sample(CellVec *c, int res, int n);  /* n cells drawn from cv_sparse_digit_cells (always including long zero runs) */
void cv_coarse_boundary_cells(CellVec *c, int res, int per); /* cells of `res` lying on the border between two cells of each coarser resolution (0..3, res-2, res-1) */
void cv_coarse_boundary_sample(CellVec *c, int res, int n);  /* n random cells of cv_coarse_boundary_cells(res, 0) */
void cv_face_centre_cells(CellVec *c, int res, int ndir); /* cells on and 1e-9..1e-2 rad around the 20 icosahedron face centres (ndir directions per distance) */
int vt_face_centres(LatLng out[20]);                       /* the 20 face centres, from the public res-0 pentagon centres */
void cv_basecell_vertex_cells(CellVec *c, int res, int n); /* cells at n random corners of res-0 cells (farthest from their base cell's centre) and a neighbour of each */
void cv_pentagon_edge_band(CellVec *c, int res, int stride, int phase, int nt); /* cells hugging the 5 icosahedron edges at every stride-th pentagon, nt positions inside its base cell */
void cv_pentagon_edge_strip(CellVec *c, int res, int stride, int phase); /* every cell within 2.5 cell widths of the 5 icosahedron edges at a pentagon, out to 0.16 of the edge (de-duplicated) */
void cv_polar_cells(CellVec *c, int res);               /* the cells containing the poles and their neighbours */
void cv_antimeridian_cells(CellVec *c, int res, int n); /* cells on lng = +-pi at n latitudes, with neighbours */
void cv_icosa_band_cells(CellVec *c, int res, int nT);  /* cells 1e-9..3e-3 rad either side of the 30 icosahedron edges (midpoints, ends, random) */
uint64_t vt_random_cell(int res);
uint64_t vt_mutate_word(uint64_t h);                    /* structured near-valid words */

/* guarded buffers: n elements of size sz with canaries before and after */
void *gb_alloc(size_t n, size_t sz, unsigned char fill);
int gb_ok(void *p);                                     /* canaries intact */
void gb_free(void *p);
void vt_overrun_check(void *p, const char *f, uint64_t arg); /* emits an Overrun event if the canaries of p are damaged */
/* guarded heap for the drivers: see vtrace.c */
void *vt_gmalloc(size_t sz); void *vt_gcalloc(size_t n, size_t sz); void *vt_grealloc(void *p, size_t sz); void vt_gfree(void *p);
#ifndef VT_NO_GUARD_MACROS
#define malloc(sz) vt_gmalloc((sz))
#define calloc(n, sz) vt_gcalloc((n), (sz))
#define realloc(p, sz) vt_grealloc((p), (sz))
#define free(p) vt_gfree((p))
#endif
#endif
