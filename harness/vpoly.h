/* Planar latitude/longitude geometry (trusted numeric projection, DESIGN 4.3/6) used by C07 / C15 / C16.
 * A polygon is "well-formed" in the sense of the properties: simple loops, every edge spanning less than 180 degrees of
 * longitude (so each edge is taken the short way round), not enclosing a pole.  Loops are unwrapped into a continuous
 * planar curve (x = longitude, y = latitude); points are compared after shifting their longitude by a multiple of 2*pi
 * into the polygon's frame.  All predicates are three-valued: 1 = clearly yes, 0 = clearly no, 2 = within the ambiguity
 * band of a boundary (the trace specification constrains nothing on 2).  Independent of the library's own ray casting,
 * bounding boxes and longitude normalisation. */
#ifndef VPOLY_H
#define VPOLY_H
#include <math.h>
#include <stdlib.h>
#include "h3api.h"
#include "vcontain.h"

#define VP_PI 3.14159265358979323846264338327950288L
typedef struct { long double x, y; } P2;
typedef struct { int n; P2 *v; long double minx, maxx, miny, maxy; int closes; } PLoop;
typedef struct { int nl; PLoop *l; } PPoly;

static inline long double vp_wrap(long double d) { while (d > VP_PI) d -= 2 * VP_PI; while (d <= -VP_PI) d += 2 * VP_PI; return d; }
static inline void ploop_bbox(PLoop *L) {
    L->minx = L->miny = 1e30L; L->maxx = L->maxy = -1e30L;
    for (int i = 0; i < L->n; i++) { if (L->v[i].x < L->minx) L->minx = L->v[i].x; if (L->v[i].x > L->maxx) L->maxx = L->v[i].x; if (L->v[i].y < L->miny) L->miny = L->v[i].y; if (L->v[i].y > L->maxy) L->maxy = L->v[i].y; }
}
/* unwrap a vertex list; closes = 0 when the longitudes wind once round the globe (the loop encloses a pole) */
static inline void ploop_from(const LatLng *verts, int n, PLoop *L) {
    L->n = n; L->v = (P2 *)malloc(sizeof(P2) * (n > 0 ? n : 1));
    long double x = n > 0 ? verts[0].lng : 0, tot = 0;
    for (int i = 0; i < n; i++) {
        L->v[i].x = x; L->v[i].y = verts[i].lat;
        long double d = vp_wrap((long double)verts[(i + 1) % n].lng - (long double)verts[i].lng); x += d; tot += d;
    }
    L->closes = fabsl(tot) < 1e-6L;
    ploop_bbox(L);
}
static inline void ploop_shift(PLoop *L, long double dx) { for (int i = 0; i < L->n; i++) L->v[i].x += dx; L->minx += dx; L->maxx += dx; }
static inline void ploop_free(PLoop *L) { free(L->v); L->v = NULL; L->n = 0; }
/* shift loop B by a multiple of 2*pi so that its bbox centre is nearest to A's */
static inline void ploop_align(const PLoop *A, PLoop *B) {
    long double ca = (A->minx + A->maxx) / 2, cb = (B->minx + B->maxx) / 2; long double k = roundl((ca - cb) / (2 * VP_PI)); if (k != 0) ploop_shift(B, k * 2 * VP_PI);
}
static inline P2 p2_align(const PLoop *A, P2 p) { long double ca = (A->minx + A->maxx) / 2; long double k = roundl((ca - p.x) / (2 * VP_PI)); p.x += k * 2 * VP_PI; return p; }

static inline long double p2_seg_dist(P2 p, P2 a, P2 b) {
    long double dx = b.x - a.x, dy = b.y - a.y, l2 = dx * dx + dy * dy; long double t = l2 > 0 ? ((p.x - a.x) * dx + (p.y - a.y) * dy) / l2 : 0;
    if (t < 0) t = 0; if (t > 1) t = 1; long double ex = a.x + t * dx - p.x, ey = a.y + t * dy - p.y; return sqrtl(ex * ex + ey * ey);
}
static inline long double p2_orient(P2 a, P2 b, P2 c) { return (b.x - a.x) * (c.y - a.y) - (b.y - a.y) * (c.x - a.x); }
static inline int p2_segs_touch(P2 a, P2 b, P2 c, P2 d) {
    long double o1 = p2_orient(a, b, c), o2 = p2_orient(a, b, d), o3 = p2_orient(c, d, a), o4 = p2_orient(c, d, b);
    if (((o1 > 0 && o2 < 0) || (o1 < 0 && o2 > 0)) && ((o3 > 0 && o4 < 0) || (o3 < 0 && o4 > 0))) return 1;
    return 0;
}
static inline long double p2_segseg_dist(P2 a, P2 b, P2 c, P2 d) {
    if (p2_segs_touch(a, b, c, d)) return 0;
    long double m = p2_seg_dist(a, c, d), t;
    t = p2_seg_dist(b, c, d); if (t < m) m = t; t = p2_seg_dist(c, a, b); if (t < m) m = t; t = p2_seg_dist(d, a, b); if (t < m) m = t; return m;
}
static inline long double ploop_dist(const PLoop *L, P2 p) { long double m = 1e30L; for (int i = 0; i < L->n; i++) { long double d = p2_seg_dist(p, L->v[i], L->v[(i + 1) % L->n]); if (d < m) m = d; } return m; }
/* 1 inside, 0 outside, 2 within band of the boundary */
static inline int pt_in_loop(const PLoop *L, P2 p, long double band) {
    if (L->n < 3) return 0;
    if (p.x < L->minx - band || p.x > L->maxx + band || p.y < L->miny - band || p.y > L->maxy + band) return 0;
    if (ploop_dist(L, p) <= band) return 2;
    int cr = 0;
    for (int i = 0, j = L->n - 1; i < L->n; j = i++) {
        P2 a = L->v[i], b = L->v[j];
        if ((a.y > p.y) != (b.y > p.y)) { long double xi = a.x + (p.y - a.y) * (b.x - a.x) / (b.y - a.y); if (p.x < xi) cr = !cr; }
    }
    return cr;
}
/* polygon = outer minus holes; p must already be in the polygon's frame */
static inline int pt_in_poly(const PPoly *P, P2 p, long double band) {
    int o = pt_in_loop(&P->l[0], p, band); if (o == 0) return 0;
    int amb = o == 2;
    for (int h = 1; h < P->nl; h++) { int r = pt_in_loop(&P->l[h], p, band); if (r == 1) return 0; if (r == 2) amb = 1; }
    return amb ? 2 : 1;
}
static inline void ppoly_from(const GeoPolygon *g, PPoly *P) {
    P->nl = 1 + g->numHoles; P->l = (PLoop *)malloc(sizeof(PLoop) * P->nl);
    ploop_from(g->geoloop.verts, g->geoloop.numVerts, &P->l[0]);
    for (int h = 0; h < g->numHoles; h++) { ploop_from(g->holes[h].verts, g->holes[h].numVerts, &P->l[h + 1]); ploop_align(&P->l[0], &P->l[h + 1]); }
}
static inline void ppoly_free(PPoly *P) { for (int i = 0; i < P->nl; i++) ploop_free(&P->l[i]); free(P->l); P->l = NULL; P->nl = 0; }

/* ---- a cell as a planar shape ---------------------------------------------------------------------------------------- */
typedef struct { PLoop chord; P2 centre; long double bulge; int pole; } CellShape;
/* bulge: how far the great-circle edges of the cell depart from the straight chords between its cellToBoundary vertices in the
 * lat/lng plane (the library reasons on the chords; "the cell" of the property has great-circle edges): everything within
 * bulge of the chord polygon's boundary is ambiguous. */
static inline int cellshape_from(H3Index h, const PLoop *frame, CellShape *S) {
    CellBoundary cb; LatLng c; if (cellToBoundary(h, &cb) || cellToLatLng(h, &c)) return 1;
    ploop_from(cb.verts, cb.numVerts, &S->chord);
    S->pole = !S->chord.closes;
    long double u = 0;
    for (int i = 0; i < cb.numVerts; i++) {
        L3 a = l3_of(&cb.verts[i]), b = l3_of(&cb.verts[(i + 1) % cb.numVerts]); P2 pa = S->chord.v[i], pb = S->chord.v[(i + 1) % cb.numVerts];
        if (i + 1 == cb.numVerts) pb.x = pa.x + vp_wrap(pb.x - pa.x);
        for (int s = 1; s < 8; s++) { L3 m = l3_lerp(a, b, s / 8.0L); LatLng g = l3_ll(m); P2 pm = {pa.x + vp_wrap((long double)g.lng - cb.verts[i].lng), g.lat}; long double d = p2_seg_dist(pm, pa, pb); if (d > u) u = d; }
    }
    S->bulge = u * 1.25L + 1e-10L;
    if (frame) ploop_align(frame, &S->chord);
    /* the centre, in the same frame as the chord polygon */
    long double cx = S->chord.v[0].x + vp_wrap((long double)c.lng - cb.verts[0].lng); S->centre.x = cx; S->centre.y = c.lat;
    /* a cell that contains a pole (or whose centre is not inside its own chord polygon: a strongly distorted polar shape) is excluded */
    if (!S->pole && pt_in_loop(&S->chord, S->centre, 0) != 1) S->pole = 1;
    return 0;
}
static inline void cellshape_free(CellShape *S) { ploop_free(&S->chord); }

typedef struct { int cin, vin, wi, sh; } CellObs;
#define VP_PT_BAND 1e-11L
static inline CellObs cell_vs_poly(const PPoly *P, const CellShape *S) {
    CellObs o = {2, 2, 2, 2};
    if (S->pole) return o;
    const PLoop *C = &S->chord; long double u = S->bulge;
    o.cin = pt_in_poly(P, S->centre, VP_PT_BAND);
    int any0 = 0, all1 = 1, any1 = 0, r0 = 2;
    for (int i = 0; i < C->n; i++) { int r = pt_in_poly(P, C->v[i], VP_PT_BAND); if (i == 0) r0 = r; if (r == 0) any0 = 1; if (r != 1) all1 = 0; if (r == 1) any1 = 1; }
    o.vin = any0 ? 0 : all1 ? 1 : 2;
    long double dmin = 1e30L;
    for (int l = 0; l < P->nl; l++) { const PLoop *L = &P->l[l]; if (L->maxx < C->minx - 1 || L->minx > C->maxx + 1) { } for (int i = 0; i < L->n; i++) for (int j = 0; j < C->n; j++) { long double d = p2_segseg_dist(L->v[i], L->v[(i + 1) % L->n], C->v[j], C->v[(j + 1) % C->n]); if (d < dmin) dmin = d; } }
    int loopInCell = 0, outerInCell = 2;
    for (int l = 0; l < P->nl; l++) { if (P->l[l].n == 0) continue; int r = pt_in_loop(C, P->l[l].v[0], u); if (l == 0) outerInCell = r; if (r != 0) loopInCell = 1; }
    /* wholly interior: the cell boundary keeps clear of every polygon edge, starts inside, and no loop sits inside the cell */
    if (dmin > u && r0 == 1 && !loopInCell) o.wi = 1; else if (o.cin == 0 || o.vin == 0) o.wi = 0; else o.wi = 2;
    /* shares a point */
    int sh = 2;
    if (o.cin == 1 || any1) sh = 1;
    if (sh != 1) for (int l = 0; l < P->nl && sh != 1; l++) for (int i = 0; i < P->l[l].n; i++) if (pt_in_loop(C, P->l[l].v[i], u) == 1) { sh = 1; break; }
    if (sh != 1) {
        /* a point of a polygon edge clearly inside the cell: midpoints between consecutive crossings with the chord polygon */
        for (int l = 0; l < P->nl && sh != 1; l++) for (int i = 0; i < P->l[l].n && sh != 1; i++) {
            P2 a = P->l[l].v[i], b = P->l[l].v[(i + 1) % P->l[l].n]; long double ts[2 * MAX_CELL_BNDRY_VERTS + 2]; int nt = 0; ts[nt++] = 0; ts[nt++] = 1;
            for (int j = 0; j < C->n; j++) { P2 c = C->v[j], d = C->v[(j + 1) % C->n]; long double den = (b.x - a.x) * (d.y - c.y) - (b.y - a.y) * (d.x - c.x); if (den == 0) continue;
                long double t = ((c.x - a.x) * (d.y - c.y) - (c.y - a.y) * (d.x - c.x)) / den, s = ((c.x - a.x) * (b.y - a.y) - (c.y - a.y) * (b.x - a.x)) / den; if (t > 0 && t < 1 && s >= 0 && s <= 1 && nt < 2 * MAX_CELL_BNDRY_VERTS + 2) ts[nt++] = t; }
            for (int x = 0; x < nt; x++) for (int y = x + 1; y < nt; y++) if (ts[y] < ts[x]) { long double t = ts[x]; ts[x] = ts[y]; ts[y] = t; }
            for (int x = 0; x + 1 < nt; x++) { long double t = (ts[x] + ts[x + 1]) / 2; P2 m = {a.x + t * (b.x - a.x), a.y + t * (b.y - a.y)}; if (pt_in_loop(C, m, u) == 1) { sh = 1; break; } }
        }
    }
    if (sh != 1 && dmin > u && r0 == 0 && outerInCell == 0) sh = 0;
    o.sh = sh;
    return o;
}
#endif
