/* Small numeric projection helpers (trusted, see DESIGN 4.3): unit vectors, angles, nearest face. */
#ifndef VGEOM_H
#define VGEOM_H
#include <math.h>
#include "h3api.h"
#include "face_centers.h"
typedef struct { double x, y, z; } V3;
static inline V3 v3_of(const LatLng *g) { V3 v = {cos(g->lat) * cos(g->lng), cos(g->lat) * sin(g->lng), sin(g->lat)}; return v; }
static inline LatLng ll_of(V3 v) { double n = sqrt(v.x * v.x + v.y * v.y + v.z * v.z); LatLng g = {asin(v.z / n), atan2(v.y, v.x)}; return g; }
static inline double v3_dot(V3 a, V3 b) { return a.x * b.x + a.y * b.y + a.z * b.z; }
static inline V3 v3_cross(V3 a, V3 b) { V3 c = {a.y * b.z - a.z * b.y, a.z * b.x - a.x * b.z, a.x * b.y - a.y * b.x}; return c; }
static inline double v3_norm(V3 a) { return sqrt(v3_dot(a, a)); }
static inline V3 v3_unit(V3 a) { double n = v3_norm(a); V3 u = {a.x / n, a.y / n, a.z / n}; return u; }
static inline V3 v3_lerp(V3 a, V3 b, double t) { V3 c = {a.x + (b.x - a.x) * t, a.y + (b.y - a.y) * t, a.z + (b.z - a.z) * t}; return v3_unit(c); }
static inline double v3_angle(V3 a, V3 b) { return atan2(v3_norm(v3_cross(a, b)), v3_dot(a, b)); }
/* nearest icosahedron face of a point; -1 if the two best candidates are within `band` (squared-chord margin) */
static inline int nearest_face(V3 p, double band) {
    int best = -1; double b1 = -2, b2 = -2;
    for (int f = 0; f < 20; f++) { LatLng g = {VERIF_FACE_CENTER[f][0], VERIF_FACE_CENTER[f][1]}; double d = v3_dot(p, v3_of(&g)); if (d > b1) { b2 = b1; b1 = d; best = f; } else if (d > b2) b2 = d; }
    return (b1 - b2 < band) ? -1 : best;
}
/* spherical triangle area, exact formula stable for tiny triangles: 2*atan2(|a.(b x c)|, 1 + a.b + b.c + c.a) */
static inline long double tri_area_l(V3 a, V3 b, V3 c) {
    long double ax = a.x, ay = a.y, az = a.z, bx = b.x, by = b.y, bz = b.z, cx = c.x, cy = c.y, cz = c.z;
    long double det = ax * (by * cz - bz * cy) - ay * (bx * cz - bz * cx) + az * (bx * cy - by * cx);
    long double den = 1 + (ax * bx + ay * by + az * bz) + (bx * cx + by * cy + bz * cz) + (cx * ax + cy * ay + cz * az);
    return 2 * atan2l(fabsl(det), den);
}
/* signed: positive when a,b,c are counter-clockwise seen from outside */
static inline long double tri_det_l(V3 a, V3 b, V3 c) {
    long double ax = a.x, ay = a.y, az = a.z, bx = b.x, by = b.y, bz = b.z, cx = c.x, cy = c.y, cz = c.z;
    return ax * (by * cz - bz * cy) - ay * (bx * cz - bz * cx) + az * (bx * cy - by * cx);
}
/* point clustering: ids for coordinates that coincide within tol (radians, chord) */
typedef struct { V3 p[256]; int n; double tol; } VidSet;
static inline int vid_of(VidSet *s, const LatLng *g) {
    V3 v = v3_of(g);
    for (int i = 0; i < s->n; i++) { double dx = v.x - s->p[i].x, dy = v.y - s->p[i].y, dz = v.z - s->p[i].z; if (sqrt(dx * dx + dy * dy + dz * dz) <= s->tol) return i + 1; }
    if (s->n < 256) s->p[s->n++] = v;
    return s->n;
}
#endif
