/* Small numeric projection helpers (trusted, see DESIGN 4.3): unit vectors, angles, nearest face. */
#ifndef VGEOM_H
#define VGEOM_H
#include <math.h>
#include "h3api.h"
#include "face_centers.h"
typedef struct { double x, y, z; } V3;
static inline V3 v3_of(const LatLng *g) { V3 v = {cos(g->lat) * cos(g->lng), cos(g->lat) * sin(g->lng), sin(g->lat)}; return v; }
static inline LatLng ll_of(V3 v) { double n = sqrt(v.x * v.x + v.y * v.y + v.z * v.z); LatLng g = {asin(v.z / n), atan2(v.y, v.x)}; return g; }
static inline double v3_dot(V3 a, V3 b) { return a.x * b.x + a.y * b.y + a.z * b.z; }
static inline V3 v3_cross(V3 a, V3 b) { V3 c = {a.y * b.z - a.z * b.y, a.z * b.x - a.x * b.z, a.x * b.y - a.y * b.x}; return c; }
static inline double v3_norm(V3 a) { return sqrt(v3_dot(a, a)); }
static inline V3 v3_unit(V3 a) { double n = v3_norm(a); V3 u = {a.x / n, a.y / n, a.z / n}; return u; }
static inline V3 v3_lerp(V3 a, V3 b, double t) { V3 c = {a.x + (b.x - a.x) * t, a.y + (b.y - a.y) * t, a.z + (b.z - a.z) * t}; return v3_unit(c); }
static inline double v3_angle(V3 a, V3 b) { return atan2(v3_norm(v3_cross(a, b)), v3_dot(a, b)); }
/* nearest icosahedron face of a point; -1 if the two best candidates are within `band` (squared-chord margin) */
static inline int nearest_face(V3 p, double band) {
    int best = -1; double b1 = -2, b2 = -2;
    for (int f = 0; f < 20; f++) { LatLng g = {VERIF_FACE_CENTER[f][0], VERIF_FACE_CENTER[f][1]}; double d = v3_dot(p, v3_of(&g)); if (d > b1) { b2 = b1; b1 = d; best = f; } else if (d > b2) b2 = d; }
    return (b1 - b2 < band) ? -1 : best;
}
#endif
