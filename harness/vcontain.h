/* Numeric projection "contains" (trusted, DESIGN 4.3/6) used by C02: the angular distance from a point to the spherical
 * polygon that cellToBoundary describes (consecutive vertices joined by great-circle arcs), 0 when the point is inside.
 * Inside-ness is decided in the gnomonic chart centred on cellToLatLng of the cell (great-circle arcs are straight lines
 * there), distances in 3-D.  Everything in long double.  Nothing here judges a result; the values go into the trace. */
#ifndef VCONTAIN_H
#define VCONTAIN_H
#include <math.h>
#include "h3api.h"
typedef struct { long double x, y, z; } L3;
static inline L3 l3_of(const LatLng *g) { long double la = g->lat, lo = g->lng; L3 v = {cosl(la) * cosl(lo), cosl(la) * sinl(lo), sinl(la)}; return v; }
static inline long double l3_dot(L3 a, L3 b) { return a.x * b.x + a.y * b.y + a.z * b.z; }
static inline L3 l3_cross(L3 a, L3 b) { L3 c = {a.y * b.z - a.z * b.y, a.z * b.x - a.x * b.z, a.x * b.y - a.y * b.x}; return c; }
static inline long double l3_norm(L3 a) { return sqrtl(l3_dot(a, a)); }
static inline L3 l3_unit(L3 a) { long double n = l3_norm(a); L3 u = {a.x / n, a.y / n, a.z / n}; return u; }
static inline L3 l3_sub(L3 a, L3 b) { L3 c = {a.x - b.x, a.y - b.y, a.z - b.z}; return c; }
static inline L3 l3_add(L3 a, L3 b) { L3 c = {a.x + b.x, a.y + b.y, a.z + b.z}; return c; }
static inline L3 l3_scale(L3 a, long double s) { L3 c = {a.x * s, a.y * s, a.z * s}; return c; }
static inline long double l3_angle(L3 a, L3 b) { return atan2l(l3_norm(l3_cross(a, b)), l3_dot(a, b)); }
static inline LatLng l3_ll(L3 v) { v = l3_unit(v); LatLng g = {(double)asinl(v.z), (double)atan2l(v.y, v.x)}; return g; }
/* point on the arc a->b at fraction t (chordal interpolation, renormalised) */
static inline L3 l3_lerp(L3 a, L3 b, long double t) { return l3_unit(l3_add(l3_scale(a, 1 - t), l3_scale(b, t))); }

/* angular distance from p to the great-circle arc a-b */
static inline long double arc_dist(L3 p, L3 a, L3 b) {
    L3 n = l3_cross(a, b); long double nn = l3_norm(n);
    if (nn < 1e-30L) return l3_angle(p, a);
    n = l3_scale(n, 1 / nn);
    long double s = l3_dot(p, n);
    L3 f = l3_sub(p, l3_scale(n, s));                 /* foot of p on the plane of the great circle */
    long double fn = l3_norm(f);
    if (fn > 1e-30L) {
        f = l3_scale(f, 1 / fn);
        if (l3_dot(l3_cross(a, f), n) >= 0 && l3_dot(l3_cross(f, b), n) >= 0) return fabsl(asinl(s));
    }
    long double da = l3_angle(p, a), db = l3_angle(p, b);
    return da < db ? da : db;
}

typedef struct { int inside; long double dist; } Contain;   /* dist: to the boundary curve (>= 0), inside: crossing number in the chart */
/* inside == -1: the chart cannot be used (point more than 80 degrees from the centre) */
static inline Contain cell_contains(const LatLng *centre, const CellBoundary *cb, const LatLng *pt) {
    Contain r = {0, 1e9L};
    L3 c = l3_of(centre), p = l3_of(pt);
    int n = cb->numVerts;
    L3 q[MAX_CELL_BNDRY_VERTS];
    for (int i = 0; i < n; i++) q[i] = l3_of(&cb->verts[i]);
    for (int i = 0; i < n; i++) { long double d = arc_dist(p, q[i], q[(i + 1) % n]); if (d < r.dist) r.dist = d; }
    if (l3_dot(p, c) < 0.17L) { r.inside = -1; return r; }
    /* chart basis */
    L3 up = fabsl(c.z) < 0.9L ? (L3){0, 0, 1} : (L3){1, 0, 0};
    L3 e1 = l3_unit(l3_cross(up, c)), e2 = l3_cross(c, e1);
    long double gx[MAX_CELL_BNDRY_VERTS], gy[MAX_CELL_BNDRY_VERTS];
    for (int i = 0; i < n; i++) { long double w = l3_dot(q[i], c); gx[i] = l3_dot(q[i], e1) / w; gy[i] = l3_dot(q[i], e2) / w; }
    long double w = l3_dot(p, c), px = l3_dot(p, e1) / w, py = l3_dot(p, e2) / w;
    int cr = 0;
    for (int i = 0, j = n - 1; i < n; j = i++) {
        if ((gy[i] > py) != (gy[j] > py)) { long double xi = gx[i] + (py - gy[i]) * (gx[j] - gx[i]) / (gy[j] - gy[i]); if (px < xi) cr = !cr; }
    }
    r.inside = cr;
    return r;
}
#endif
