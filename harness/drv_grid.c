/* Grid driver (C05): logs gridDisk-family calls.
 *   drv_grid cells <wordsfile> <kmax> <out>      all functions for every listed origin, k = 0..kmax
 *   drv_grid strata <quick|thorough> <seed> <out>  pentagon/seam/random strata at all resolutions, large k at res 0/1
 */
#include "vtrace.h"

static void ints(const int *a, int64_t n) { fputc('[', vt_out); for (int64_t i = 0; i < n; i++) fprintf(vt_out, "%s%d", i ? "," : "", a[i]); fputc(']', vt_out); }

static void ev_safe(const char *f, int which, H3Index h, int k) {
    int64_t sz; if (maxGridDiskSize(k, &sz)) return;
    H3Index *o = gb_alloc(sz, sizeof(H3Index), 0); int *d = gb_alloc(sz, sizeof(int), 0);
    H3Error r = which == 0 ? gridDisk(h, k, o) : which == 1 ? gridDiskDistances(h, k, o, d) : gridDiskDistancesSafe(h, k, o, d);
    fprintf(vt_out, "{\"e\":\"diskSafe\",\"f\":\"%s\",\"h\":", f); vt_word(h);
    fprintf(vt_out, ",\"k\":%d,\"r\":%u,\"guard\":%d,\"o\":", k, r, gb_ok(o) && gb_ok(d)); vt_words(o, sz);
    fputs(",\"d\":", vt_out); if (which) ints(d, sz); else fputs("[]", vt_out); fputs("}\n", vt_out);
    gb_free(o); gb_free(d);
}
static void ev_unsafe(int withDist, H3Index h, int k) {
    int64_t sz; if (maxGridDiskSize(k < 0 ? 0 : k, &sz)) return;
    H3Index *o = gb_alloc(sz, sizeof(H3Index), 0); int *d = gb_alloc(sz, sizeof(int), 0);
    H3Error r = withDist ? gridDiskDistancesUnsafe(h, k, o, d) : gridDiskUnsafe(h, k, o);
    fprintf(vt_out, "{\"e\":\"diskUnsafe\",\"f\":\"%s\",\"h\":", withDist ? "gridDiskDistancesUnsafe" : "gridDiskUnsafe"); vt_word(h);
    fprintf(vt_out, ",\"k\":%d,\"r\":%u,\"guard\":%d,\"o\":", k, r, gb_ok(o) && gb_ok(d)); vt_words(o, sz);
    fputs(",\"d\":", vt_out); if (withDist) ints(d, sz); else fputs("[]", vt_out); fputs("}\n", vt_out);
    gb_free(o); gb_free(d);
}
static void ev_ring(H3Index h, int k) {
    int64_t sz = k <= 0 ? 1 : 6 * (int64_t)k;
    H3Index *o = gb_alloc(sz, sizeof(H3Index), 0);
    H3Error r = gridRingUnsafe(h, k, o);
    /* observation for the known finding: how many pentagons lie strictly inside the ring (safe disk of radius k-1) */
    int encl = 0; if (k >= 1 && k <= 80 && isValidCell(h)) { int64_t dsz; if (!maxGridDiskSize(k - 1, &dsz)) { H3Index *dd = calloc(dsz, 8); if (dd && !gridDisk(h, k - 1, dd)) for (int64_t i = 0; i < dsz; i++) if (dd[i] && isPentagon(dd[i])) encl++; free(dd); } }
    fputs("{\"e\":\"ringUnsafe\",\"h\":", vt_out); vt_word(h);
    int pentOut = 0; if (!r) for (int64_t i = 0; i < sz; i++) if (o[i] && isPentagon(o[i])) pentOut++;        /* pentagons among the cells the walk returned */
    fprintf(vt_out, ",\"k\":%d,\"r\":%u,\"guard\":%d,\"encl\":%d,\"wrapped\":%d,\"pentOut\":%d,\"o\":", k, r, gb_ok(o), encl, encl >= 6 ? 1 : 0, pentOut); vt_words(o, sz); fputs("}\n", vt_out);
    gb_free(o);
}
static void ev_disks(H3Index *hs, int n, int k) {
    int64_t sz; if (maxGridDiskSize(k, &sz)) return;
    H3Index *o = gb_alloc(sz * n, sizeof(H3Index), 0);
    H3Error r = gridDisksUnsafe(hs, n, k, o);
    fputs("{\"e\":\"disksUnsafe\",\"hs\":", vt_out); vt_words(hs, n);
    fprintf(vt_out, ",\"k\":%d,\"r\":%u,\"guard\":%d,\"o\":", k, r, gb_ok(o)); vt_words(o, sz * n); fputs("}\n", vt_out);
    gb_free(o);
}
static void ev_nb(H3Index a, H3Index b) {
    int o = -1; H3Error r = areNeighborCells(a, b, &o);
    fputs("{\"e\":\"areNeighbors\",\"a\":", vt_out); vt_word(a); fputs(",\"b\":", vt_out); vt_word(b);
    fprintf(vt_out, ",\"r\":%u,\"o\":%d}\n", r, o);
}
static void ev_k1(H3Index h) {
    H3Index o[7] = {0}; H3Error r = gridDisk(h, 1, o);
    fputs("{\"e\":\"neighborsK1\",\"h\":", vt_out); vt_word(h); fprintf(vt_out, ",\"r\":%u,\"o\":", r); vt_words(o, 7); fputs("}\n", vt_out);
}
/* areNeighborCells on all pairs inside a small disk + a few far cells */
static void nb_pairs(H3Index h, int k, int every) {
    int64_t sz; maxGridDiskSize(k, &sz);
    H3Index *d = calloc(sz, sizeof(H3Index)); gridDisk(h, k, d);
    int c = 0;
    for (int64_t i = 0; i < sz; i++) if (d[i]) { if ((c++ % every) == 0) { ev_nb(h, d[i]); ev_nb(d[i], h); } }
    for (int64_t i = 0; i < sz; i++) for (int64_t j = 0; j < sz; j++) if (d[i] && d[j] && vt_randn(every * 6) == 0) ev_nb(d[i], d[j]);
    ev_nb(h, h);
    ev_nb(h, vt_random_cell(getResolution(h)));
    free(d);
}
static void all_for(H3Index h, int kmax) {
    ev_k1(h);
    for (int k = 0; k <= kmax; k++) {
        ev_safe("gridDisk", 0, h, k); ev_safe("gridDiskDistances", 1, h, k); ev_safe("gridDiskDistancesSafe", 2, h, k);
        ev_unsafe(0, h, k); ev_unsafe(1, h, k); ev_ring(h, k);
    }
    nb_pairs(h, kmax < 2 ? kmax : 2, 1);
}

int main(int argc, char **argv) {
    if (argc == 5 && !strcmp(argv[1], "cells")) {
        FILE *in = fopen(argv[2], "r"); if (!in) return 2;
        int kmax = atoi(argv[3]); vt_seed(5); vt_open(argv[4]);
        uint64_t h; H3Index grp[3]; int ng = 0;
        while (fscanf(in, "%" SCNx64, &h) == 1) {
            all_for(h, kmax);
            grp[ng++] = h; if (ng == 3) { ev_disks(grp, 3, 1); ev_disks(grp, 2, kmax); ng = 0; }
        }
        fclose(in);
    } else if (argc == 5 && !strcmp(argv[1], "strata")) {
        int quick = argv[2][0] == 'q'; vt_seed(strtoull(argv[3], 0, 10) + 5); vt_open(argv[4]);
        for (int k = -2; k <= 12; k++) { int64_t n = -1; H3Error r = maxGridDiskSize(k, &n); fprintf(vt_out, "{\"e\":\"maxGridDiskSize\",\"k\":%d,\"r\":%u,\"n\":%d}\n", k, r, (int)n); }
        for (int res = 3; res <= 15; res++) {
            CellVec cv = {0};
            cv_pentagon_strata(&cv, res, quick ? 2 : 3); cv_sparse_digit_sample(&cv, res, quick ? 6 : 40); cv_coarse_boundary_sample(&cv, res, quick ? 6 : 30);
            cv_random_cells(&cv, res, quick ? 6 : 40);
            cv_seam_cells(&cv, res, quick ? 1 : 4);
            for (int64_t i = 0; i < cv.n; i++) {
                if (quick && (i % 3) && res % 4) continue;
                H3Index h = cv.v[i];
                int k = (int)vt_randn(quick ? 4 : 6);
                ev_k1(h);
                ev_safe("gridDisk", 0, h, k); ev_safe("gridDiskDistances", 1, h, k); ev_safe("gridDiskDistancesSafe", 2, h, k);
                ev_unsafe((int)vt_randn(2), h, k); ev_ring(h, k); ev_ring(h, (int)vt_randn(quick ? 5 : 7));
                ev_unsafe(0, h, -1 - (int)vt_randn(3));
                nb_pairs(h, 2, 2);
                if (i + 2 < cv.n && i % 5 == 0) { H3Index g[3] = {cv.v[i], cv.v[i + 1], cv.v[i + 2]}; ev_disks(g, 3, (int)vt_randn(3)); H3Index g2[2] = {cv.v[i + 2], cv.v[i]}; ev_disks(g2, 2, k); }
            }
            cv_free(&cv);
        }
        /* disks that cover the whole globe (k at and beyond the graph diameter): every base cell at r=0, the pentagons and some
           hexagons at r=1 */
        { CellVec cv = {0}; cv_all_cells(&cv, 0);
          for (int64_t i = 0; i < cv.n; i++) { if (quick && i % 2 && !isPentagon(cv.v[i])) continue; ev_safe("gridDisk", 0, cv.v[i], 10); ev_safe("gridDiskDistancesSafe", 2, cv.v[i], 12); ev_safe("gridDiskDistances", 1, cv.v[i], 9); }
          cv_free(&cv);
          H3Index p1[12]; getPentagons(1, p1);
          for (int i = 0; i < 12; i++) { if (quick && i % 3) continue; ev_safe("gridDiskDistancesSafe", 2, p1[i], 26); ev_safe("gridDisk", 0, p1[i], 27); }
          for (int t = 0; t < (quick ? 3 : 20); t++) ev_safe(t % 2 ? "gridDisk" : "gridDiskDistances", t % 2 ? 0 : 1, vt_random_cell(1), 25 + (int)vt_randn(4)); }
        /* k from "half the globe" up to the graph diameter (10 at r=0, 26 at r=1), every value: between the k at which a flat disk would
           already hold as many cells as the globe has and the diameter, the disk is still not the whole globe */
        { H3Index r0[122]; getRes0Cells(r0); H3Index p1[12]; getPentagons(1, p1);
          for (int t = 0; t < (quick ? 6 : 30); t++) { H3Index h = t % 2 ? r0[vt_randn(122)] : r0[(int[]){4, 14, 24, 38, 49, 58, 63, 72, 83, 97, 107, 117}[vt_randn(12)]];
              for (int k = 4; k <= 11; k++) { ev_safe("gridDisk", 0, h, k); if (k % 2) ev_safe("gridDiskDistances", 1, h, k); } }
          for (int t = 0; t < (quick ? 4 : 16); t++) { H3Index h = t % 2 ? vt_random_cell(1) : p1[vt_randn(12)];
              for (int k = 15; k <= 27; k += (quick ? 2 : 1)) ev_safe("gridDisk", 0, h, k); } }
        /* large k at the coarsest resolutions: wraps more than half of the globe */
        for (int res = 0; res <= 1; res++) {
            CellVec cv = {0}; cv_all_cells(&cv, res);
            int ks0[] = {3, 5, 8, 12}, ks1[] = {6, 13, 25, 40, 60};
            for (int t = 0; t < (quick ? 3 : 12); t++) {
                H3Index h = cv.v[vt_randn(cv.n)];
                int k = res == 0 ? ks0[vt_randn(4)] : ks1[vt_randn(quick ? 3 : 5)];
                ev_safe("gridDisk", 0, h, k); ev_safe("gridDiskDistancesSafe", 2, h, k);
                ev_unsafe(1, h, k); ev_ring(h, k);
            }
            cv_free(&cv);
        }
    } else if (argc == 5 && !strcmp(argv[1], "wrap")) {
        /* hollow rings large enough to enclose several pentagons (the closure test is all that protects them) */
        int quick = argv[2][0] == 'q'; vt_seed(strtoull(argv[3], 0, 10) + 55); vt_open(argv[4]);
        for (int res = 0; res <= 1; res++) {
            CellVec cv = {0}; cv_all_cells(&cv, res);
            int lo = res == 0 ? 4 : 9, hi = res == 0 ? 9 : 14;
            for (int64_t i = 0; i < cv.n; i++) { if (quick && (i % (res ? 12 : 3)) != 1) continue; for (int k = lo; k <= hi; k++) { if (quick && res && k < 11 && k % 2) continue; ev_ring(cv.v[i], k); } }
            cv_free(&cv);
        }
        if (!quick) for (int t = 0; t < 60; t++) { H3Index h = vt_random_cell(2); ev_ring(h, 25 + (int)vt_randn(16)); }
    } else return 2;
    vt_close();
    return 0;
}
