/* gridDistance / local IJ / gridPathCells driver (C09, C14).
 *   drv_dist all <res> <nOrigins|0=all> <seed> <out>   distAll events: every target of the resolution from each origin
 *   drv_dist c09 <quick|thorough> <seed> <out>
 *   drv_dist c14 <quick|thorough> <seed> <out>
 */
#include <limits.h>
#include "vtrace.h"

static void ev_dist(H3Index a, H3Index b) {
    int64_t d = -7, dr = -7; H3Error r = gridDistance(a, b, &d), rr = gridDistance(b, a, &dr);
    if (d > 100000 || d < -100000) d = -99; if (dr > 100000 || dr < -100000) dr = -99;
    fputs("{\"e\":\"dist\",\"a\":", vt_out); vt_word(a); fputs(",\"b\":", vt_out); vt_word(b);
    fprintf(vt_out, ",\"r\":%u,\"d\":%d,\"rr\":%u,\"dr\":%d}\n", r, (int)d, rr, (int)dr);
}
static void ev_mismatch(H3Index a, H3Index b) {
    int64_t d; H3Error r = gridDistance(a, b, &d);
    fputs("{\"e\":\"distMismatch\",\"a\":", vt_out); vt_word(a); fputs(",\"b\":", vt_out); vt_word(b); fprintf(vt_out, ",\"r\":%u}\n", r);
}
static void ev_dist_all(H3Index a, const CellVec *all) {
    fputs("{\"e\":\"distAll\",\"a\":", vt_out); vt_word(a); fputs(",\"t\":[", vt_out);
    for (int64_t i = 0; i < all->n; i++) {
        int64_t d = -7; H3Error r = gridDistance(a, all->v[i], &d);
        fprintf(vt_out, "%s{\"b\":", i ? "," : ""); vt_word(all->v[i]); fprintf(vt_out, ",\"r\":%u,\"d\":%d}", r, r ? -7 : (int)d);
    }
    fputs("]}\n", vt_out);
}
/* far targets: origin inside a pentagon base cell (non-zero leading digit), targets up to K steps away */
static int lead_of(H3Index h) { int res = (int)((h >> 52) & 15); for (int r = 1; r <= res; r++) { int d = (int)((h >> (3 * (15 - r))) & 7); if (d) return d; } return 0; }
/* targets stratified by (base cell, leading digit): up to `per` cells of every class present in the K-disk */
static void ev_dist_classes(H3Index a, int K, int per) {
    int64_t sz; maxGridDiskSize(K, &sz); H3Index *d = calloc(sz, sizeof(H3Index));
    if (gridDisk(a, K, d)) { free(d); return; }
    static int cnt[128 * 8]; memset(cnt, 0, sizeof cnt);
    fputs("{\"e\":\"distFar\",\"a\":", vt_out); vt_word(a); fprintf(vt_out, ",\"k\":%d,\"t\":[", K);
    int first = 1; int64_t start = (int64_t)vt_randn(sz);
    for (int64_t i = 0; i < sz; i++) {
        H3Index b = d[(start + i * 7919) % sz]; if (!b) continue;
        int key = getBaseCellNumber(b) * 8 + lead_of(b); if (cnt[key] >= per) continue; cnt[key]++;
        int64_t x = -7, xr = -7; H3Error r = gridDistance(a, b, &x), rr = gridDistance(b, a, &xr);
        fprintf(vt_out, "%s{\"b\":", first ? "" : ","); first = 0; vt_word(b);
        fprintf(vt_out, ",\"r\":%u,\"d\":%d,\"rr\":%u,\"dr\":%d}", r, r ? -7 : (int)x, rr, rr ? -7 : (int)xr);
    }
    fputs("]}\n", vt_out); free(d);
}
static void ev_dist_far(H3Index a, int K, int nt) {
    int64_t sz; maxGridDiskSize(K, &sz); H3Index *d = calloc(sz, sizeof(H3Index)); int *dd = calloc(sz, sizeof(int));
    if (gridDiskDistances(a, K, d, dd)) { free(d); free(dd); return; }
    fputs("{\"e\":\"distFar\",\"a\":", vt_out); vt_word(a); fprintf(vt_out, ",\"k\":%d,\"t\":[", K);
    int first = 1, tries = 0, got = 0;
    while (got < nt && tries++ < nt * 50) {
        int64_t q = (int64_t)vt_randn(sz); if (!d[q]) continue;
        if (dd[q] < K / 3 && vt_randn(4)) continue;            /* prefer far targets */
        int64_t x = -7, xr = -7; H3Error r = gridDistance(a, d[q], &x), rr = gridDistance(d[q], a, &xr);
        fprintf(vt_out, "%s{\"b\":", first ? "" : ","); first = 0; vt_word(d[q]);
        fprintf(vt_out, ",\"r\":%u,\"d\":%d,\"rr\":%u,\"dr\":%d}", r, r ? -7 : (int)x, rr, rr ? -7 : (int)xr); got++;
    }
    fputs("]}\n", vt_out); free(d); free(dd);
}
static void ev_localij(H3Index o, H3Index h) {
    CoordIJ ij = {-7, -7}; H3Error r = cellToLocalIj(o, h, 0, &ij);
    H3Index back = VT_SENTINEL; H3Error rb = r ? 99 : localIjToCell(o, &ij, 0, &back);
    fputs("{\"e\":\"localIj\",\"o\":", vt_out); vt_word(o); fputs(",\"h\":", vt_out); vt_word(h);
    fprintf(vt_out, ",\"r\":%u,\"i\":%d,\"j\":%d,\"rb\":%u,\"back\":", r, ij.i, ij.j, rb); vt_word(back); fputs("}\n", vt_out);
}
static void ev_ijtocell(H3Index o, int i, int j) {
    CoordIJ ij = {i, j}; H3Index c = VT_SENTINEL; H3Error r = localIjToCell(o, &ij, 0, &c);
    CoordIJ b = {-7, -7}; H3Error r2 = r ? 99 : cellToLocalIj(o, c, 0, &b);
    fputs("{\"e\":\"ijToCell\",\"o\":", vt_out); vt_word(o);
    fprintf(vt_out, ",\"i\":%d,\"j\":%d,\"r\":%u,\"c\":", i, j, r); vt_word(c);
    fprintf(vt_out, ",\"r2\":%u,\"i2\":%d,\"j2\":%d}\n", r2, b.i, b.j);
}
/* coordinates at which one of the linear forms of the aperture-7 parent step (3i-j, i+2j | 2i+j, 3j-i) is close to a multiple of
 * 2^31 / 2^32 while the other is small: where 32-bit arithmetic wraps round to a plausible value */
static void ij_overflow_aliases(H3Index o) {
    static const long long FORMS[2][4] = {{3, -1, 1, 2}, {2, 1, -1, 3}};
    static const long long BIG[] = {4294967296LL, -4294967296LL, 2147483648LL, -2147483648LL, 6442450944LL, -6442450944LL};
    for (int f = 0; f < 2; f++) for (int b = 0; b < 6; b++) for (int which = 0; which < 2; which++) {
        long long a = FORMS[f][0], bb = FORMS[f][1], c = FORMS[f][2], d = FORMS[f][3];
        long long X = which ? 0 : BIG[b], Y = which ? BIG[b] : 0;
        long long i0 = (d * X - bb * Y) / 7, j0 = (-c * X + a * Y) / 7;
        for (int di = -2; di <= 2; di++) for (int dj = -2; dj <= 2; dj++) {
            long long i = i0 + di, j = j0 + dj; if (i > 2147483647LL || i < -2147483648LL || j > 2147483647LL || j < -2147483648LL) continue;
            ev_ijtocell(o, (int)i, (int)j);
        }
    }
}
static void ev_ijnbhd(H3Index o, int k) {
    int64_t sz; maxGridDiskSize(k, &sz); H3Index *d = calloc(sz, sizeof(H3Index)); gridDisk(o, k, d);
    fputs("{\"e\":\"ijNbhd\",\"o\":", vt_out); vt_word(o); fprintf(vt_out, ",\"k\":%d,\"cs\":[", k);
    int first = 1;
    for (int64_t i = 0; i < sz; i++) if (d[i]) {
        CoordIJ ij = {0, 0}; H3Error r = cellToLocalIj(o, d[i], 0, &ij);
        fprintf(vt_out, "%s{\"h\":", first ? "" : ","); first = 0; vt_word(d[i]); fprintf(vt_out, ",\"r\":%u,\"i\":%d,\"j\":%d}", r, r ? 0 : ij.i, r ? 0 : ij.j);
    }
    fputs("]}\n", vt_out); free(d);
}
#define PAD 4
static void ev_path(H3Index a, H3Index b) {
    int64_t n = 0, d = -7; H3Error rs = gridPathCellsSize(a, b, &n), rd = gridDistance(a, b, &d);
    if (rs) n = 0;
    if (n > 20000) return;
    H3Index *o = gb_alloc(n + PAD, sizeof(H3Index), 0);
    for (int64_t i = 0; i < n + PAD; i++) o[i] = VT_SENTINEL;
    H3Error r = rs ? rs : gridPathCells(a, b, o);
    fputs("{\"e\":\"path\",\"a\":", vt_out); vt_word(a); fputs(",\"b\":", vt_out); vt_word(b);
    fprintf(vt_out, ",\"rs\":%u,\"n\":%d,\"rd\":%u,\"d\":%d,\"r\":%u,\"pad\":%d,\"guard\":%d,\"o\":", rs, (int)n, rd, rd ? -7 : (int)d, r, PAD, gb_ok(o));
    vt_words(o, n + PAD); fputs("}\n", vt_out);
    gb_free(o);
}
static H3Index walk(H3Index h, int steps) {  /* random walk via gridDisk(1) */
    for (int s = 0; s < steps; s++) { H3Index d[7] = {0}; gridDisk(h, 1, d); H3Index n = d[vt_randn(7)]; if (n) h = n; }
    return h;
}
static H3Index straight(H3Index h, int steps) { /* walk in one IJ direction via local IJ of the moving origin */
    CoordIJ dir = {(int)vt_randn(3) - 1, (int)vt_randn(3) - 1};
    for (int s = 0; s < steps; s++) { CoordIJ ij; if (cellToLocalIj(h, h, 0, &ij)) break; ij.i += dir.i * 3; ij.j += dir.j * 3 + 1; H3Index n; if (localIjToCell(h, &ij, 0, &n)) break; h = n; }
    return h;
}

/* paths from one origin to targets of every (base cell, leading digit) class within K steps */
static void ev_path_classes(H3Index a, int K, int per) {
    int64_t sz; maxGridDiskSize(K, &sz); H3Index *d = calloc(sz, sizeof(H3Index));
    if (gridDisk(a, K, d)) { free(d); return; }
    static int cnt[128 * 8]; memset(cnt, 0, sizeof cnt);
    int64_t start = (int64_t)vt_randn(sz);
    for (int64_t i = 0; i < sz; i++) {
        H3Index b = d[(start + i * 7919) % sz]; if (!b) continue;
        int key = getBaseCellNumber(b) * 8 + lead_of(b); if (cnt[key] >= per) continue; cnt[key]++;
        ev_path(a, b);
    }
    free(d);
}
/* lines across a pentagon's base cell: for every ordered pair of distinct base cells next to it, `nper` random (origin, target)
 * pairs within K cells of the pentagon.  The samples of such a line fall into the pentagon's base cell seen from a neighbouring
 * origin: the reverse rotation tables of localIjkToCell, entry by (direction of the origin's base cell, leading digit). */
static void ev_path_across(H3Index pent, int K, int nper) {
    int64_t sz; maxGridDiskSize(K, &sz); H3Index *d = calloc(sz, sizeof(H3Index)); if (gridDisk(pent, K, d)) { free(d); return; }
    int pb = getBaseCellNumber(pent); int nbc[8], nn = 0;
    for (int64_t i = 0; i < sz; i++) if (d[i]) { int b = getBaseCellNumber(d[i]); if (b == pb) continue; int k; for (k = 0; k < nn; k++) if (nbc[k] == b) break; if (k == nn && nn < 8) nbc[nn++] = b; }
    for (int x = 0; x < nn; x++) for (int y = 0; y < nn; y++) if (x != y) {
        int got = 0, tries = 0;
        while (got < nper && tries++ < nper * 400) {
            H3Index a = d[vt_randn(sz)], b = d[vt_randn(sz)]; if (!a || !b || getBaseCellNumber(a) != nbc[x] || getBaseCellNumber(b) != nbc[y]) continue;
            ev_path(a, b); got++;
        }
    }
    free(d);
}

int main(int argc, char **argv) {
    if (argc == 6 && !strcmp(argv[1], "all")) {
        int res = atoi(argv[2]), no = atoi(argv[3]); vt_seed(strtoull(argv[4], 0, 10) + 9); vt_open(argv[5]);
        CellVec all = {0}; cv_all_cells(&all, res);
        if (no == 0 || no >= all.n) for (int64_t i = 0; i < all.n; i++) ev_dist_all(all.v[i], &all);
        else { H3Index p[12]; getPentagons(res, p); for (int i = 0; i < 12 && i < no; i++) ev_dist_all(p[i], &all); for (int i = 12; i < no; i++) ev_dist_all(all.v[vt_randn(all.n)], &all); }
        cv_free(&all);
    } else if (argc == 5 && !strcmp(argv[1], "c09")) {
        int quick = argv[2][0] == 'q'; vt_seed(strtoull(argv[3], 0, 10) + 9); vt_open(argv[4]);
        static const int EXT[] = {INT_MAX, INT_MIN, INT_MAX - 1, INT_MIN + 1, 1 << 30, -(1 << 30), 1 << 20, -(1 << 20), 65536, -65536, 3000, -3000};
        /* far pairs out of pentagon base cells: the unfolding tables matter only across base cells */
        { static const int KS[] = {0, 8, 16, 24, 40, 40, 40, 40, 40};
          H3Index p0[12]; getPentagons(0, p0);
          for (int res = 1; res <= (quick ? 5 : 8); res++) for (int pi = 0; pi < 12; pi++) {
              if (quick && ((pi + res) % 4)) continue;
              int bc = getBaseCellNumber(p0[pi]);
              for (int lead = 2; lead <= 6; lead++) {
                  if (quick && ((lead + pi + res) % 2)) continue;
                  uint64_t h = ((uint64_t)1 << 59) | ((uint64_t)res << 52) | ((uint64_t)bc << 45);
                  int z = (int)vt_randn(res);                  /* leading zeros */
                  for (int r = 1; r <= 15; r++) { uint64_t dg = r > res ? 7 : r <= z ? 0 : r == z + 1 ? (uint64_t)lead : vt_randn(7); h |= dg << (3 * (15 - r)); }
                  if (isValidCell(h)) ev_dist_far(h, KS[res], quick ? 40 : 120);
              }
          } }
        /* the pentagon unfolding tables, class by class: origins with each leading digit inside each pentagon base cell and
           origins in each neighbouring base cell, against targets of every (base cell, leading digit) class within K */
        { H3Index p0[12]; getPentagons(0, p0); uint64_t sd = strtoull(argv[3], 0, 10);
          for (int res = 2; res <= (quick ? 2 : 4); res++) for (int pi = 0; pi < 12; pi++) {
              if (quick && ((pi + sd) % 3)) continue;
              int bc = getBaseCellNumber(p0[pi]); int K = res == 2 ? 16 : res == 3 ? 22 : 30;
              for (int lead = 2; lead <= 6; lead++) {
                  uint64_t h = ((uint64_t)1 << 59) | ((uint64_t)res << 52) | ((uint64_t)bc << 45);
                  int z = (int)vt_randn(res);
                  for (int r = 1; r <= 15; r++) { uint64_t dg = r > res ? 7 : r <= z ? 0 : r == z + 1 ? (uint64_t)lead : vt_randn(7); h |= dg << (3 * (15 - r)); }
                  if (isValidCell(h)) ev_dist_classes(h, K, quick ? 2 : 4);
              }
              H3Index nb[7] = {0}; gridDisk(p0[pi], 1, nb);
              for (int q = 0; q < 7; q++) if (nb[q] && nb[q] != p0[pi]) {
                  uint64_t h = ((uint64_t)1 << 59) | ((uint64_t)res << 52) | ((uint64_t)getBaseCellNumber(nb[q]) << 45);
                  for (int r = 1; r <= 15; r++) { uint64_t dg = r > res ? 7 : vt_randn(7); h |= dg << (3 * (15 - r)); }
                  if (isValidCell(h)) ev_dist_classes(h, K, quick ? 2 : 4);
              }
          } }
        /* the reverse unfolding tables of localIjkToCell, entry by (direction, leading digit): origins in every base cell next to a
           pentagon base cell and inside it with every leading digit; every IJ coordinate of a box that covers the pentagon's
           base cell and its neighbours */
        { H3Index p0[12]; getPentagons(0, p0); uint64_t sd = strtoull(argv[3], 0, 10);
          for (int res = 1; res <= 3; res++) for (int pi = 0; pi < 12; pi++) {
              int bc = getBaseCellNumber(p0[pi]); int polar = bc == 4 || bc == 117;
              if (res == 3 && quick && !polar && (pi + sd) % 5) continue;
              int R = res == 1 ? 8 : res == 2 ? 14 : 24;
              H3Index nb[7] = {0}; gridDisk(p0[pi], 1, nb);
              for (int q = 0; q < 7 + 5; q++) {
                  uint64_t h = ((uint64_t)1 << 59) | ((uint64_t)res << 52);
                  if (q < 7) { if (!nb[q] || nb[q] == p0[pi]) continue; h |= (uint64_t)getBaseCellNumber(nb[q]) << 45; for (int r = 1; r <= 15; r++) { uint64_t dg = r > res ? 7 : vt_randn(7); h |= dg << (3 * (15 - r)); } }
                  else { int lead = q - 7 + 2; h |= (uint64_t)bc << 45; int z = (int)vt_randn(res); for (int r = 1; r <= 15; r++) { uint64_t dg = r > res ? 7 : r <= z ? 0 : r == z + 1 ? (uint64_t)lead : vt_randn(7); h |= dg << (3 * (15 - r)); } }
                  if (!isValidCell(h)) continue;
                  CoordIJ c0; if (cellToLocalIj(h, h, 0, &c0)) continue;
                  int step = (res == 3 && quick) ? 2 : 1;
                  for (int i = -R; i <= R; i += step) for (int j = -R; j <= R; j += step) ev_ijtocell(h, c0.i + i, c0.j + j);
              }
          } }
        for (int res = 0; res <= 15; res++) {
            CellVec cv = {0};
            cv_pentagon_strata(&cv, res, quick ? 1 : 2); cv_random_cells(&cv, res, quick ? 6 : 30); if (res >= 2) cv_seam_cells(&cv, res, quick ? 1 : 3); cv_sparse_digit_sample(&cv, res, quick ? 4 : 30);
            int64_t nplain = cv.n; cv_coarse_boundary_cells(&cv, res, quick ? 1 : 4); cv_basecell_vertex_cells(&cv, res, quick ? (res >= 13 ? 60 : 4) : 240);
            for (int64_t i = 0; i < cv.n; i++) {
                if (quick && i < nplain && (i % 3) != (res % 3)) continue;
                H3Index o = cv.v[i];
                if (i >= nplain) {   /* on a coarse-cell border: every neighbour and second neighbour, both directions */
                    H3Index d2[19] = {0}; gridDisk(o, 2, d2); for (int q = 0; q < 19; q++) if (d2[q]) { ev_dist(o, d2[q]); if (q % 3 == 0) ev_localij(o, d2[q]); }
                    ev_dist(o, walk(o, 5 + (int)vt_randn(12))); continue; }
                int k = quick ? 4 : 6; int64_t sz; maxGridDiskSize(k, &sz); H3Index *d = calloc(sz, sizeof(H3Index)); gridDisk(o, k, d);
                for (int64_t q = 0; q < sz; q++) if (d[q] && vt_randn(quick ? 6 : 3) == 0) { ev_dist(o, d[q]); ev_localij(o, d[q]); }
                free(d);
                ev_dist(o, o); ev_ijnbhd(o, quick ? 2 : 3);
                /* IJ box around the origin and extreme coordinates */
                CoordIJ c0; if (!cellToLocalIj(o, o, 0, &c0)) {
                    for (int t = 0; t < (quick ? 10 : 40); t++) ev_ijtocell(o, c0.i + (int)vt_randn(15) - 7, c0.j + (int)vt_randn(15) - 7);
                }
                for (int t = 0; t < 4; t++) ev_ijtocell(o, EXT[vt_randn(12)], vt_randn(2) ? EXT[vt_randn(12)] : (int)vt_randn(9) - 4);
                if (i % (quick ? 40 : 8) == 0) ij_overflow_aliases(o);
                if (res > 0) { H3Index p; cellToParent(o, res - 1, &p); ev_mismatch(o, p); ev_mismatch(p, o); }
                ev_dist(o, walk(o, 3 + (int)vt_randn(6)));
            }
            cv_free(&cv);
        }
    } else if (argc == 5 && !strcmp(argv[1], "c14")) {
        int quick = argv[2][0] == 'q'; vt_seed(strtoull(argv[3], 0, 10) + 14); vt_open(argv[4]);
        /* the pentagon unfolding, class by class: origins with each leading digit inside each pentagon base cell (even and odd
           resolutions) against targets of every (base cell, leading digit) class within K steps */
        { H3Index p0[12]; getPentagons(0, p0);
          for (int res = 2; res <= (quick ? 3 : 5); res++) for (int pi = 0; pi < 12; pi++) {
              int bc = getBaseCellNumber(p0[pi]); int K = res == 2 ? 20 : res == 3 ? 26 : 45;
              for (int lead = 2; lead <= 6; lead++) {
                  if (quick && res == 3 && (pi % 3)) break;
                  uint64_t h = ((uint64_t)1 << 59) | ((uint64_t)res << 52) | ((uint64_t)bc << 45);
                  int z = (int)vt_randn(res);
                  for (int r = 1; r <= 15; r++) { uint64_t dg = r > res ? 7 : r <= z ? 0 : r == z + 1 ? (uint64_t)lead : vt_randn(7); h |= dg << (3 * (15 - r)); }
                  if (isValidCell(h)) ev_path_classes(h, K, quick ? 3 : 6);
              }
              /* origins in each base cell next to the pentagon base cell: the line to a target on the far side crosses the
                 pentagon's base cell (the reverse rotation tables; the two polar pentagons have their own) */
              if (res >= 3 || !quick) {
                  int polar = (bc == 4 || bc == 117);
                  if (quick && !polar && (pi + strtoull(argv[3], 0, 10)) % 4) continue;
                  H3Index nb[7] = {0}; gridDisk(p0[pi], 1, nb);
                  for (int q = 0; q < 7; q++) if (nb[q] && nb[q] != p0[pi]) {
                      for (int rep = 0; rep < (polar ? 2 : 1); rep++) {
                          uint64_t h = ((uint64_t)1 << 59) | ((uint64_t)res << 52) | ((uint64_t)getBaseCellNumber(nb[q]) << 45);
                          for (int r = 1; r <= 15; r++) { uint64_t dg = r > res ? 7 : vt_randn(7); h |= dg << (3 * (15 - r)); }
                          if (isValidCell(h)) ev_path_classes(h, K + 4, quick ? 2 : 5);
                      }
                  }
              }
          } }
        { H3Index p0[12]; getPentagons(0, p0); uint64_t sd = strtoull(argv[3], 0, 10);
          for (int res = 2; res <= (quick ? 3 : 4); res++) { H3Index pr[12]; getPentagons(res, pr);
              for (int pi = 0; pi < 12; pi++) { int bc = getBaseCellNumber(pr[pi]); int polar = bc == 4 || bc == 117;
                  if (quick && !polar && (pi + sd) % 4) continue;
                  ev_path_across(pr[pi], res == 2 ? 7 : res == 3 ? 16 : 40, (polar ? (quick ? 500 : 3000) : (quick ? 200 : 600)) / (res == 4 ? 10 : 1)); } } }
        /* all pairs within k<=3(4) for cells of r<=2 (sampled origins), strata at all r, long paths at r>=5 */
        for (int res = 0; res <= 15; res++) {
            CellVec cv = {0};
            cv_pentagon_strata(&cv, res, quick ? 1 : 2); cv_random_cells(&cv, res, quick ? 8 : 40); if (res >= 2) cv_seam_cells(&cv, res, quick ? 1 : 3); cv_sparse_digit_sample(&cv, res, quick ? 4 : 30);
            if (res <= 2) { CellVec all = {0}; cv_all_cells(&all, res); for (int64_t i = 0; i < all.n; i += (res == 2 ? (quick ? 40 : 6) : (quick ? 6 : 1))) cv_push(&cv, all.v[i]); cv_free(&all); }
            int64_t nplain = cv.n; cv_coarse_boundary_cells(&cv, res, quick ? 1 : 4); cv_basecell_vertex_cells(&cv, res, quick ? (res >= 13 ? 60 : 4) : 240);
            for (int64_t i = 0; i < cv.n; i++) {
                if (quick && res > 2 && i < nplain && (i % 3) != (res % 3)) continue;
                H3Index a = cv.v[i];
                int k = res <= 2 ? (quick ? 3 : 4) : 2; int64_t sz; maxGridDiskSize(k, &sz); H3Index *d = calloc(sz, sizeof(H3Index)); gridDisk(a, k, d);
                for (int64_t q = 0; q < sz; q++) if (d[q] && (res <= 2 ? vt_randn(quick ? 3 : 1) == 0 : vt_randn(2) == 0)) ev_path(a, d[q]);
                free(d);
                ev_path(a, a);
                ev_path(a, walk(a, 4 + (int)vt_randn(5)));
                if (res >= 3) ev_path(a, straight(a, 2 + (int)vt_randn(3)));
                if (res >= 5 && i % (quick ? 40 : 8) == 0) ev_path(a, straight(a, 60 + (int)vt_randn(100)));
                if (res >= 5 && i >= nplain && i % 4 == 0) ev_path(a, straight(a, 150 + (int)vt_randn(200)));   /* a few hundred cells from a sub-tree border / a base cell's corner */
            }
            cv_free(&cv);
        }
        /* very long lines at fine resolutions (thousands of cells): local coordinates times distance approach 2^31 */
        for (int t = 0; t < (quick ? 8 : 30); t++) {
            int res = t % 2 ? 15 : 13 + (t / 2) % 3; H3Index a = vt_random_cell(res);
            H3Index b = straight(a, (res == 15 ? 2500 : res == 14 ? 4000 : 6000) + (int)vt_randn(quick ? 2500 : 6000));
            ev_path(a, b);
        }
    } else if (argc == 5 && !strcmp(argv[1], "pathij")) {
        /* model -> code for H3Path: lines on a pentagon-free patch, in the start cell's own local IJ coordinates */
        int quick = argv[2][0] == 'q'; vt_seed(strtoull(argv[3], 0, 10) + 141); vt_open(argv[4]);
        for (int rr = 0; rr < (quick ? 2 : 6); rr++) {
            int res = 5 + rr; LatLng g = {0.45 + 0.03 * rr, 0.2 + 0.05 * rr}; H3Index c0 = 0; latLngToCell(&g, res, &c0);   /* inside a hexagon base cell, far from pentagons and icosahedron vertices */
            H3Index st[19] = {0}; gridDisk(c0, 2, st); int64_t sz; maxGridDiskSize(9, &sz); H3Index *d = calloc(sz, sizeof(H3Index));
            for (int s = 0; s < 19; s++) { H3Index a = st[s]; if (!a || (quick && s % 3)) continue; if (gridDisk(a, 9, d)) continue;
                CoordIJ ca; if (cellToLocalIj(a, a, 0, &ca)) continue;
                for (int64_t q = 0; q < sz; q++) { H3Index b = d[q]; if (!b) continue; CoordIJ cb; if (cellToLocalIj(a, b, 0, &cb)) continue;
                    int64_t n = 0; H3Error r = gridPathCellsSize(a, b, &n); H3Index *pth = NULL; if (!r && n > 0 && n < 64) { pth = calloc(n, sizeof(H3Index)); r = gridPathCells(a, b, pth); }
                    fprintf(vt_out, "{\"e\":\"pathIJ\",\"res\":%d,\"a\":[%d,%d],\"b\":[%d,%d],\"r\":%u,\"p\":[", res, ca.i, ca.j, cb.i, cb.j, r);
                    int bad = 0; if (!r && pth) for (int64_t t = 0; t < n; t++) { CoordIJ c; if (cellToLocalIj(a, pth[t], 0, &c)) { bad = 1; c.i = c.j = 99999; } fprintf(vt_out, "%s[%d,%d]", t ? "," : "", c.i, c.j); }
                    (void)bad; fputs("]}\n", vt_out); free(pth); } }
            free(d); }
    } else return 2;
    vt_close();
    return 0;
}
