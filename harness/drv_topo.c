/* Edges and vertexes driver (C10, C11 discrete parts).
 *   drv_topo cells <wordsfile> <out>             edgeNbhd + vertexNbhd for every listed cell
 *   drv_topo strata <quick|thorough> <seed> <out>  same on strata at r = 3..15, plus pair / word events
 */
#include "vtrace.h"

static void ev_edge_nbhd(H3Index h) {
    H3Index es[6]; for (int i = 0; i < 6; i++) es[i] = VT_SENTINEL;
    H3Error r = originToDirectedEdges(h, es);
    fputs("{\"e\":\"edgeNbhd\",\"h\":", vt_out); vt_word(h); fprintf(vt_out, ",\"r\":%u,\"es\":", r); vt_words(es, 6);
    fputs(",\"ed\":[", vt_out);
    for (int i = 0; i < 6; i++) {
        H3Index o = VT_SENTINEL, d = VT_SENTINEL, c[2] = {VT_SENTINEL, VT_SENTINEL}, ce = VT_SENTINEL;
        int v = isValidDirectedEdge(es[i]);
        H3Error ro = getDirectedEdgeOrigin(es[i], &o), rd = getDirectedEdgeDestination(es[i], &d), rc = directedEdgeToCells(es[i], c);
        H3Error rce = rd ? 99 : cellsToDirectedEdge(h, d, &ce);
        fprintf(vt_out, "%s{\"v\":%d,\"ro\":%u,\"o\":", i ? "," : "", v, ro); vt_word(o);
        fprintf(vt_out, ",\"rd\":%u,\"d\":", rd); vt_word(d);
        fprintf(vt_out, ",\"rc\":%u,\"c1\":", rc); vt_word(c[0]); fputs(",\"c2\":", vt_out); vt_word(c[1]);
        fprintf(vt_out, ",\"rce\":%u,\"ce\":", rce); vt_word(ce); fputc('}', vt_out);
    }
    fputs("]}\n", vt_out);
}
static void ev_cells_to_edge(H3Index a, H3Index b) {
    H3Index o = VT_SENTINEL; H3Error r = cellsToDirectedEdge(a, b, &o);
    fputs("{\"e\":\"cellsToEdge\",\"a\":", vt_out); vt_word(a); fputs(",\"b\":", vt_out); vt_word(b);
    fprintf(vt_out, ",\"r\":%u,\"o\":", r); vt_word(o); fputs("}\n", vt_out);
}
static void ev_valid_edge(H3Index x) {
    fputs("{\"e\":\"isValidEdge\",\"x\":", vt_out); vt_word(x); fprintf(vt_out, ",\"o\":%d}\n", isValidDirectedEdge(x));
}
static void ev_valid_vertex(H3Index x) {
    H3Index owner = (x & ~((uint64_t)15 << 59) & ~((uint64_t)7 << 56)) | ((uint64_t)1 << 59);
    fputs("{\"e\":\"isValidVertex\",\"x\":", vt_out); vt_word(x); fprintf(vt_out, ",\"o\":%d,\"ov\":", isValidVertex(x));
    H3Index vs[6] = {0};
    if (isValidCell(owner) && !cellToVertexes(owner, vs)) vt_words(vs, 6); else fputs("[]", vt_out);
    fputs("}\n", vt_out);
}
static void ev_vertex_nbhd(H3Index h) {
    H3Index vs[6]; for (int i = 0; i < 6; i++) vs[i] = VT_SENTINEL;
    H3Error r = cellToVertexes(h, vs);
    fputs("{\"e\":\"vertexNbhd\",\"h\":", vt_out); vt_word(h); fprintf(vt_out, ",\"r\":%u,\"vs\":", r); vt_words(vs, 6);
    fputs(",\"cv\":[", vt_out);
    for (int i = -2; i <= 8; i++) {
        H3Index o = VT_SENTINEL; H3Error rr = cellToVertex(h, i, &o);
        fprintf(vt_out, "%s{\"i\":%d,\"r\":%u,\"o\":", i > -2 ? "," : "", i, rr); vt_word(o); fputc('}', vt_out);
    }
    fputs("],\"nb\":[", vt_out);
    H3Index d[7] = {0}; gridDisk(h, 1, d); int first = 1;
    for (int i = 0; i < 7; i++) if (d[i] && d[i] != h) {
        H3Index bv[6] = {0}; cellToVertexes(d[i], bv);
        fprintf(vt_out, "%s{\"b\":", first ? "" : ","); first = 0; vt_word(d[i]); fputs(",\"vs\":", vt_out); vt_words(bv, 6); fputc('}', vt_out);
    }
    fputs("]}\n", vt_out);
}
static void word_events(H3Index h) {
    /* candidate edge / vertex words: every reserved value on the cell, mutated, wrong modes */
    for (int rsv = 0; rsv < 8; rsv++) {
        H3Index e = (h & ~((uint64_t)15 << 59) & ~((uint64_t)7 << 56)) | ((uint64_t)2 << 59) | ((uint64_t)rsv << 56);
        H3Index v = (h & ~((uint64_t)15 << 59) & ~((uint64_t)7 << 56)) | ((uint64_t)4 << 59) | ((uint64_t)rsv << 56);
        ev_valid_edge(e); ev_valid_vertex(v);
        if (rsv == 3) { ev_valid_edge(vt_mutate_word(e)); ev_valid_vertex(vt_mutate_word(v)); ev_valid_edge(e | ((uint64_t)1 << 63)); ev_valid_vertex(v | ((uint64_t)1 << 63)); }
    }
    ev_valid_edge(h); ev_valid_vertex(h); ev_valid_edge(vt_rand()); ev_valid_vertex(vt_rand());
}
static void pair_events(H3Index h) {
    H3Index d[19] = {0}; gridDisk(h, 2, d);
    for (int i = 0; i < 19; i++) if (d[i] && vt_randn(3) == 0) { ev_cells_to_edge(h, d[i]); ev_cells_to_edge(d[i], h); }
    ev_cells_to_edge(h, h);
    int res = getResolution(h);
    ev_cells_to_edge(h, vt_random_cell(res));
    if (res > 0) { H3Index p; cellToParent(h, res - 1, &p); ev_cells_to_edge(h, p); ev_cells_to_edge(p, h); }
}

/* concurrent mode: 8 threads make the edge / vertex observations at the same time on cells spread over the globe (the answers are
 * functions of the argument whatever other threads are asking); per-thread event streams */
#include <pthread.h>
typedef struct { CellVec cells; char *buf; size_t len; } TopoTh;
static pthread_barrier_t g_bar;
static void *topo_worker(void *arg) {
    TopoTh *t = arg; vt_out = open_memstream(&t->buf, &t->len);
    pthread_barrier_wait(&g_bar);
    for (int rep = 0; rep < 2; rep++) for (int64_t i = 0; i < t->cells.n; i++) { ev_vertex_nbhd(t->cells.v[i]); if ((i + rep) % 2 == 0) ev_edge_nbhd(t->cells.v[i]); }
    fclose(vt_out); vt_out = NULL; return NULL;
}
static void topo_threads(int quick, const char *path) {
    enum { T = 8 }; TopoTh th[T]; pthread_t id[T]; memset(th, 0, sizeof th);
    for (int t = 0; t < T; t++) for (int res = 1; res <= 15; res++) { cv_pentagon_strata(&th[t].cells, res, 1); cv_random_cells(&th[t].cells, res, quick ? 8 : 50); if (res >= 3) cv_seam_cells(&th[t].cells, res, quick ? 1 : 3); }
    pthread_barrier_init(&g_bar, NULL, T);
    for (int t = 0; t < T; t++) pthread_create(&id[t], NULL, topo_worker, &th[t]);
    for (int t = 0; t < T; t++) pthread_join(id[t], NULL);
    vt_open(path);
    for (int t = 0; t < T; t++) { fwrite(th[t].buf, 1, th[t].len, vt_out); (free)(th[t].buf); cv_free(&th[t].cells); }
}

int main(int argc, char **argv) {
    if (argc == 5 && !strcmp(argv[1], "threads")) { vt_seed(strtoull(argv[3], 0, 10) + 1010); topo_threads(argv[2][0] == 'q', argv[4]); vt_close(); return 0; }
    if (argc == 4 && !strcmp(argv[1], "cells")) {
        FILE *in = fopen(argv[2], "r"); if (!in) return 2; vt_seed(7); vt_open(argv[3]);
        uint64_t h; int n = 0;
        while (fscanf(in, "%" SCNx64, &h) == 1) { ev_edge_nbhd(h); ev_vertex_nbhd(h); if (n++ % 4 == 0 || getResolution(h) <= 1) { pair_events(h); word_events(h); } }
        fclose(in);
    } else if (argc == 5 && !strcmp(argv[1], "strata")) {
        int quick = argv[2][0] == 'q'; vt_seed(strtoull(argv[3], 0, 10) + 10); vt_open(argv[4]);
        for (int res = 3; res <= 15; res++) {
            CellVec cv = {0};
            cv_pentagon_strata(&cv, res, quick ? 2 : 3); cv_random_cells(&cv, res, quick ? 10 : 60); cv_seam_cells(&cv, res, quick ? 1 : 4); cv_sparse_digit_sample(&cv, res, quick ? 6 : 40); cv_coarse_boundary_sample(&cv, res, quick ? 8 : 40); cv_polar_cells(&cv, res); cv_antimeridian_cells(&cv, res, quick ? 1 : 6);
            /* along the icosahedron edges inside the pentagons' base cells: sub-trees that spill over onto the neighbouring face */
            if (res >= 5 && res <= (quick ? 8 : 11)) { CellVec b = {0}; cv_icosa_band_cells(&b, res, quick ? 4 : 8); for (int64_t i = (int64_t)vt_randn(2); i < b.n; i += 2) cv_push(&cv, b.v[i]); cv_free(&b); }
            if (res >= 5 && res <= (quick ? 8 : 11)) cv_pentagon_edge_band(&cv, res, quick ? 3 : 1, (int)strtoull(argv[3], 0, 10) + res, quick ? 8 : 16);
            int64_t nsampled = cv.n;
            if (res == 5 || (!quick && res <= 7)) cv_pentagon_edge_strip(&cv, res, 1, 0);      /* complete strips: the tips of sub-trees spilling over an icosahedron edge are single spots */
            for (int64_t i = 0; i < cv.n; i++) {
                if (quick && i < nsampled && (i % 2) && (res % 3)) continue;
                ev_edge_nbhd(cv.v[i]); ev_vertex_nbhd(cv.v[i]);
                if (i % 3 == 0) { pair_events(cv.v[i]); word_events(cv.v[i]); }
            }
            cv_free(&cv);
        }
    } else return 2;
    vt_close();
    return 0;
}
