/* C19 driver: getIcosahedronFaces / maxFaceCount.  drv_faces cells <wordsfile> <out> | strata <tier> <seed> <out> */
#include "vtrace.h"
#include "vgeom.h"

static void ev_faces(H3Index h) {
    int mfc = -1; H3Error rm = maxFaceCount(h, &mfc); if (mfc < 0 || mfc > 8) mfc = 5;
    int *o = gb_alloc(mfc, sizeof(int), 0x77);
    H3Error r = getIcosahedronFaces(h, o);
    fputs("{\"e\":\"faces\",\"h\":", vt_out); vt_word(h);
    fprintf(vt_out, ",\"rm\":%u,\"mfc\":%d,\"r\":%u,\"guard\":%d,\"o\":[", rm, mfc, r, gb_ok(o));
    for (int i = 0; i < mfc; i++) fprintf(vt_out, "%s%d", i ? "," : "", o[i]);
    fputs("]", vt_out);
    /* geometric witnesses: nearest face of interior sample points (centre, corners and edge midpoints pulled inwards) */
    CellBoundary cb; LatLng c;
    if (!cellToBoundary(h, &cb) && !cellToLatLng(h, &c)) {
        int seen[20] = {0}, amb = 0; V3 vc = v3_of(&c);
        static const double PULL[] = {0.5, 0.1, 0.01, 1e-3};
        int f = nearest_face(vc, 1e-9); if (f >= 0) seen[f] = 1; else amb++;
        for (int i = 0; i < cb.numVerts; i++) {
            V3 a = v3_of(&cb.verts[i]), b = v3_of(&cb.verts[(i + 1) % cb.numVerts]);
            for (int q = 0; q < 4; q++) {
                for (int m = 0; m <= 2; m++) {           /* corner, 1/4 and midpoint of the edge */
                    V3 p = v3_lerp(v3_lerp(a, b, m * 0.25), vc, PULL[q]);
                    f = nearest_face(p, 1e-9); if (f >= 0) seen[f] = 1; else amb++;
                }
            }
        }
        fputs(",\"wit\":[", vt_out); int first = 1; for (int i = 0; i < 20; i++) if (seen[i]) { fprintf(vt_out, "%s%d", first ? "" : ",", i); first = 0; }
        fprintf(vt_out, "],\"witall\":%d", amb == 0);
    }
    fputs("}\n", vt_out);
    gb_free(o);
}
/* concurrent mode: 8 threads ask for the faces of cells along the icosahedron edges, of pentagons and of random cells at the same time
 * (the answer is a function of the cell whatever other threads are asking); per-thread event streams */
#include <pthread.h>
typedef struct { CellVec cells; char *buf; size_t len; } FaceTh;
static pthread_barrier_t g_bar;
static void *face_worker(void *arg) {
    FaceTh *t = arg; vt_out = open_memstream(&t->buf, &t->len);
    pthread_barrier_wait(&g_bar);
    for (int64_t i = 0; i < t->cells.n; i++) ev_faces(t->cells.v[i]);
    fclose(vt_out); vt_out = NULL; return NULL;
}
static void face_threads(int quick, const char *path) {
    enum { T = 8 }; FaceTh th[T]; pthread_t id[T]; memset(th, 0, sizeof th);
    for (int t = 0; t < T; t++) { for (int res = 0; res <= 15; res++) { cv_pentagon_strata(&th[t].cells, res, 1); cv_seam_cells(&th[t].cells, res, quick ? 2 : 12); cv_random_cells(&th[t].cells, res, quick ? 4 : 30); }
        for (int64_t i = th[t].cells.n - 1; i > 0; i--) { int64_t j = (int64_t)vt_randn(i + 1); H3Index x = th[t].cells.v[i]; th[t].cells.v[i] = th[t].cells.v[j]; th[t].cells.v[j] = x; } }   /* threads are at different resolutions at any moment */
    pthread_barrier_init(&g_bar, NULL, T);
    for (int t = 0; t < T; t++) pthread_create(&id[t], NULL, face_worker, &th[t]);
    for (int t = 0; t < T; t++) pthread_join(id[t], NULL);
    vt_open(path);
    for (int t = 0; t < T; t++) { fwrite(th[t].buf, 1, th[t].len, vt_out); (free)(th[t].buf); cv_free(&th[t].cells); }
}
int main(int argc, char **argv) {
    if (argc == 5 && !strcmp(argv[1], "threads")) { vt_seed(strtoull(argv[3], 0, 10) + 1919); face_threads(argv[2][0] == 'q', argv[4]); vt_close(); return 0; }
    if (argc == 4 && !strcmp(argv[1], "cells")) {
        FILE *in = fopen(argv[2], "r"); if (!in) return 2; vt_open(argv[3]); uint64_t h;
        while (fscanf(in, "%" SCNx64, &h) == 1) ev_faces(h);
        fclose(in);
    } else if (argc == 5 && !strcmp(argv[1], "strata")) {
        int quick = argv[2][0] == 'q'; vt_seed(strtoull(argv[3], 0, 10) + 19); vt_open(argv[4]);
        for (int res = 0; res <= 15; res++) {
            CellVec cv = {0};
            cv_pentagon_strata(&cv, res, quick ? 2 : 4); cv_seam_cells(&cv, res, quick ? 6 : 40); cv_random_cells(&cv, res, quick ? 10 : 60); cv_sparse_digit_sample(&cv, res, quick ? 6 : 40); cv_coarse_boundary_sample(&cv, res, quick ? 8 : 40); cv_polar_cells(&cv, res);
            /* neighbours of the seam cells: the only cells with two faces live along the 30 edges */
            int64_t n0 = cv.n; for (int64_t i = 0; i < n0; i += (quick ? 5 : 2)) { H3Index d[7] = {0}; gridDisk(cv.v[i], 1, d); for (int q = 0; q < 7; q++) if (d[q]) cv_push(&cv, d[q]); }
            for (int64_t i = 0; i < cv.n; i++) ev_faces(cv.v[i]);
            cv_free(&cv);
        }
    } else return 2;
    vt_close(); return 0;
}
