/* One-off generator of harness/face_centers.h (frozen): the 20 icosahedron face centres of the pinned tree. */
#include <stdio.h>
#include "faceijk.h"
int main(void) {
    printf("/* GENERATED ONCE from the pinned uber/h3 tree (faceCenterGeo, faceijk.c:40) and then frozen. */\n");
    printf("static const double VERIF_FACE_CENTER[20][2] = {\n");
    for (int f = 0; f < 20; f++) printf("    {%.17g, %.17g},\n", faceCenterGeo[f].lat, faceCenterGeo[f].lng);
    printf("};\n");
    return 0;
}
