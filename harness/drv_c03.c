/* C03 driver: centre round trip for complete coarse resolutions and strata; per-base-cell enumeration counts.
 *   drv_c03 <quick|thorough> <seed> <out> */
#include "vtrace.h"
static int cmp_u64(const void *a, const void *b) { uint64_t x = *(const uint64_t *)a, y = *(const uint64_t *)b; return x < y ? -1 : x > y; }
static void ev_rt(H3Index h) {
    LatLng g = {0, 0}; H3Error rc = cellToLatLng(h, &g); H3Index o = VT_SENTINEL; H3Error rl = rc ? 99 : latLngToCell(&g, getResolution(h), &o);
    fputs("{\"e\":\"roundtrip\",\"h\":", vt_out); vt_word(h); fprintf(vt_out, ",\"rc\":%u,\"rl\":%u,\"o\":", rc, rl); vt_word(o); fputs("}\n", vt_out);
}
int main(int argc, char **argv) {
    if (argc < 4) return 2;
    int quick = argv[1][0] == 'q'; vt_seed(strtoull(argv[2], 0, 10) + 3); vt_open(argv[3]);
    int full = quick ? 3 : 5;
    H3Index r0[122]; getRes0Cells(r0);
    for (int res = 0; res <= full; res++) for (int b = 0; b < 122; b++) {
        int64_t n = 0; cellToChildrenSize(r0[b], res, &n); H3Index *ch = calloc(n, 8); cellToChildren(r0[b], res, ch);
        int64_t nz = 0; int allvalid = 1, distinct = 1;
        for (int64_t i = 0; i < n; i++) if (ch[i]) { nz++; if (!isValidCell(ch[i]) || getResolution(ch[i]) != res || getBaseCellNumber(ch[i]) != getBaseCellNumber(r0[b])) allvalid = 0; if (i && ch[i] <= ch[i - 1]) distinct = 0; ev_rt(ch[i]); }
        fputs("{\"e\":\"enumBase\",\"h0\":", vt_out); vt_word(r0[b]); fprintf(vt_out, ",\"bc\":%d,\"res\":%d,\"distinct\":%d,\"allvalid\":%d,\"n\":", getBaseCellNumber(r0[b]), res, distinct, allvalid); vt_big(nz); fputs("}\n", vt_out);
        free(ch);
    }
    /* every descendant of the 12 pentagon base cells two more resolutions down (all deleted-subsequence rotations, all five faces) */
    { H3Index p0[12]; getPentagons(0, p0);
      for (int res = full + 1; res <= full + 2 && res <= 15; res++) for (int b = 0; b < 12; b++) {
          int64_t n = 0; cellToChildrenSize(p0[b], res, &n); H3Index *ch = calloc(n, 8); cellToChildren(p0[b], res, ch);
          for (int64_t i = 0; i < n; i++) if (ch[i]) ev_rt(ch[i]);
          free(ch); } }
    /* strata at the finer resolutions: pentagon disks, every cell along the 30 icosahedron edges (dense walk), random */
    for (int res = full + 1; res <= 15; res++) {
        CellVec cv = {0};
        cv_pentagon_strata(&cv, res, quick ? 3 : 6);
        double per = 12; for (int q = 0; q < res; q++) per *= 2.6458; if (per > (quick ? 2500 : 20000)) per = quick ? 2500 : 20000;
        cv_seam_cells(&cv, res, (int)per);
        cv_random_cells(&cv, res, quick ? 200 : 3000);
        if (res >= 9) cv_icosa_band_cells(&cv, res, quick ? (res >= 14 ? 3 : 1) : 8);      /* face selection either side of the edges */
        cv_antimeridian_cells(&cv, res, quick ? 3 : 20); cv_sparse_digit_sample(&cv, res, quick ? 6 : 40); cv_coarse_boundary_sample(&cv, res, quick ? 8 : 40); if (res >= 8 || !quick) cv_face_centre_cells(&cv, res, quick ? 1 : 4);
        /* the poles: the cells containing them and their 3-disks (coordinates lose resolution there) */
        for (int sgn = -1; sgn <= 1; sgn += 2) { LatLng pl = {sgn * M_PI_2, 0}; H3Index ph; if (!latLngToCell(&pl, res, &ph)) { H3Index d[37] = {0}; if (!gridDisk(ph, 3, d)) for (int q = 0; q < 37; q++) if (d[q]) cv_push(&cv, d[q]); } }
        qsort(cv.v, cv.n, 8, cmp_u64);
        /* every index the library accepts as a cell must round-trip: digit-tampered variants of sampled cells (each digit position
           set to each value 0..7) that isValidCell accepts are cells like the others */
        for (int t = 0; t < (quick ? 40 : 400) && cv.n > 0; t++) { H3Index h = cv.v[vt_randn(cv.n)];
            for (int pos = 1; pos <= 15; pos++) for (uint64_t dv = 0; dv < 8; dv++) { H3Index w = (h & ~((uint64_t)7 << (3 * (15 - pos)))) | (dv << (3 * (15 - pos))); if (w != h && isValidCell(w)) ev_rt(w); } }
        for (int64_t i = 0; i < cv.n; i++) if (i == 0 || cv.v[i] != cv.v[i - 1]) {
            ev_rt(cv.v[i]);
            if (i % 7 == 0) { H3Index d[7] = {0}; gridDisk(cv.v[i], 1, d); for (int q = 0; q < 7; q++) if (d[q]) ev_rt(d[q]); }   /* neighbours across the seam */
        }
        cv_free(&cv);
    }
    vt_close(); return 0;
}
