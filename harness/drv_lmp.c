/* C16 driver: cellsToLinkedMultiPolygon / destroyLinkedMultiPolygon on generated cell sets, library built with the allocator
 * seam (-DH3_ALLOC_PREFIX=verif_, this file supplies verif_malloc/calloc/free and logs every call).
 *   drv_lmp run <tier> <seed> <out.ndjson>
 * Per set: Reset, Call, Alloc/Free..., Return, then (on success) one "lmp" event with the structure projected onto integers:
 * vertex ids (coordinates within 1e-12 rad share an id), orientation signs, areas in units of 1e-4 of the set's mean cell
 * area; then Call/Free.../Return of destroyLinkedMultiPolygon.  Trace_LMP judges. */
#include "vtrace.h"
#include "vcontain.h"

/* ------------------------------------------------------------------ allocator shim */
static int g_logging = 0;
#define MAXBLK 4000000
static void **g_ptr; static int g_nptr = 0;
static void *do_alloc(const char *kind, size_t bytes, int zero) {
    void *p = zero ? calloc(1, bytes ? bytes : 1) : malloc(bytes ? bytes : 1);
    if (!g_logging) return p;
    if (g_nptr >= MAXBLK) { fprintf(stderr, "too many blocks\n"); exit(2); }
    g_ptr[g_nptr++] = p;
    fprintf(vt_out, "{\"e\":\"Alloc\",\"kind\":\"%s\",\"id\":%d,\"ok\":1}\n", kind, g_nptr);
    return p;
}
void *verif_malloc(size_t size) { return do_alloc("malloc", size, 0); }
void *verif_calloc(size_t num, size_t size) { return do_alloc("calloc", num * size, 1); }
void *verif_realloc(void *ptr, size_t size) { (void)ptr; (void)size; fprintf(stderr, "realloc unexpected\n"); abort(); }
void verif_free(void *ptr) {
    if (!g_logging) { free(ptr); return; }
    if (!ptr) { fputs("{\"e\":\"Free\",\"id\":0}\n", vt_out); return; }
    int id = -1; for (int i = g_nptr - 1; i >= 0; i--) if (g_ptr[i] == ptr) { id = i + 1; break; }
    fprintf(vt_out, "{\"e\":\"Free\",\"id\":%d}\n", id);
    if (id > 0) { g_ptr[id - 1] = NULL; free(ptr); }
}

/* ------------------------------------------------------------------ vertex id clustering (1e-12 rad) */
typedef struct { L3 p; int id; } VPt;
static VPt *g_vp; static int g_nvp, g_capvp; static int *g_hash; static int g_hcap;
static uint64_t qkey(long long a, long long b, long long c) { uint64_t h = (uint64_t)a * 0x9E3779B97F4A7C15ULL; h ^= (uint64_t)b * 0xC2B2AE3D27D4EB4FULL + (h << 6) + (h >> 2); h ^= (uint64_t)c * 0x165667B19E3779F9ULL + (h << 6) + (h >> 2); return h; }
static void vid_reset(int expect) { g_nvp = 0; if (g_capvp < expect) { g_capvp = expect; g_vp = realloc(g_vp, sizeof(VPt) * g_capvp); } g_hcap = 1; while (g_hcap < expect * 4) g_hcap <<= 1; g_hash = realloc(g_hash, sizeof(int) * g_hcap); for (int i = 0; i < g_hcap; i++) g_hash[i] = -1; }
#define QCELL 1e-9L
static int vid_get(const LatLng *g) {
    L3 v = l3_of(g); long long q[3] = {(long long)floorl(v.x / QCELL), (long long)floorl(v.y / QCELL), (long long)floorl(v.z / QCELL)};
    for (int dx = -1; dx <= 1; dx++) for (int dy = -1; dy <= 1; dy++) for (int dz = -1; dz <= 1; dz++) {
        uint64_t k = qkey(q[0] + dx, q[1] + dy, q[2] + dz); int i = (int)(k & (uint64_t)(g_hcap - 1));
        while (g_hash[i] >= 0) { VPt *c = &g_vp[g_hash[i]]; L3 d = l3_sub(c->p, v); if (l3_norm(d) <= 1e-12L) return c->id; i = (i + 1) & (g_hcap - 1); }
    }
    if (g_nvp >= g_capvp) { fprintf(stderr, "vid overflow\n"); exit(2); }
    g_vp[g_nvp].p = v; g_vp[g_nvp].id = g_nvp + 1;
    uint64_t k = qkey(q[0], q[1], q[2]); int i = (int)(k & (uint64_t)(g_hcap - 1)); while (g_hash[i] >= 0) i = (i + 1) & (g_hcap - 1); g_hash[i] = g_nvp;
    return ++g_nvp;
}

/* signed spherical area of a loop (fan around the normalised mean of its vertices): positive when counter-clockwise */
static L3 g_fanref; static int g_have_fanref = 0;      /* set per cell set by lng_gap() */
static long double loop_area(const L3 *v, int n) {
    L3 m = {0, 0, 0}; if (g_have_fanref) m = g_fanref; else { for (int i = 0; i < n; i++) m = l3_add(m, v[i]); m = l3_unit(m); }
    long double s = 0;
    for (int i = 0; i < n; i++) { L3 a = v[i], b = v[(i + 1) % n]; long double det = l3_dot(m, l3_cross(a, b)); long double den = 1 + l3_dot(m, a) + l3_dot(a, b) + l3_dot(b, m); s += 2 * atan2l(det, den); }
    return s;
}

/* ------------------------------------------------------------------ set generators */
static H3Index PENT[16][12];
static H3Index pick_origin(int res, int where, int i) {
    if (where == 0) return PENT[res][i % 12];
    if (where == 1) { H3Index d[7] = {0}; gridDisk(PENT[res][i % 12], 1, d); for (int k = 0; k < 7; k++) if (d[k] && d[k] != PENT[res][i % 12] && (k + i) % 2) return d[k]; return d[1] ? d[1] : d[2]; }
    if (where == 2) { LatLng g = {(vt_rand01() - 0.5) * 2.2, vt_randn(2) ? M_PI - 1e-4 * vt_rand01() : -M_PI + 1e-4 * vt_rand01()}; H3Index h = 0; latLngToCell(&g, res, &h); return h; }
    if (where == 3) { CellVec cv = {0}; cv_seam_cells(&cv, res, 1); H3Index h = cv.n ? cv.v[vt_randn(cv.n)] : 0; cv_free(&cv); if (h) return h; }
    for (;;) { H3Index h = vt_random_cell(res); LatLng c; cellToLatLng(h, &c); if (fabs(c.lat) < 1.2) return h; }
}
/* fills set[], returns count; *kind receives a label */
static int gen_set(H3Index *set, int cap, int res, int i, const char **kind, int quick) {
    int where = (i < 0 ? -i : i) % 5; H3Index o = pick_origin(res, where, (i < 0 ? -i : i) / 5); if (!o) return 0;
    int kmax = res == 0 ? 1 : res == 1 ? 2 : (quick ? 4 : 7);
    int k = 1 + (int)vt_randn(kmax); int64_t sz; maxGridDiskSize(k, &sz); if (sz > cap) return 0;
    H3Index *d = calloc(sz, 8); int *dist = calloc(sz, sizeof(int)); gridDiskDistances(o, k, d, dist);
    int n = 0; int shape = (int)vt_randn(9);
    if (i < 0) {   /* nested rings (a ring-shaped component inside the hole of another) plus isolated components outside */
        free(d); free(dist); k = 3 + (int)vt_randn(res <= 1 ? 1 : 3); if (res == 0) return 0; maxGridDiskSize(k + 2, &sz); if (sz > cap) return 0;
        d = calloc(sz, 8); dist = calloc(sz, sizeof(int)); gridDiskDistances(o, k + 2, d, dist); *kind = "nested-rings";
        int third = (int)vt_randn(2), iso = 1 + (int)vt_randn(3);
        for (int64_t j = 0; j < sz; j++) if (d[j] && (dist[j] == k || dist[j] == k - 2 || (third && dist[j] == k - 4))) set[n++] = d[j];
        for (int q = 0; q < iso; q++) { int64_t j = (int64_t)vt_randn(sz); if (d[j] && dist[j] == k + 2) set[n++] = d[j]; }
        /* drop accidental duplicates */
        for (int a = 0; a < n; a++) for (int b = a + 1; b < n; b++) if (set[a] == set[b]) { set[b] = set[--n]; b--; }
        shape = -1;
    }
    switch (shape) {
        case -1: break;
        case 0: *kind = "disk"; for (int64_t j = 0; j < sz; j++) if (d[j]) set[n++] = d[j]; break;
        case 1: case 2: { *kind = "disk-minus-random"; int pct = 8 + (int)vt_randn(35); for (int64_t j = 0; j < sz; j++) if (d[j] && (int)vt_randn(100) >= pct) set[n++] = d[j]; break; }
        case 3: { *kind = "ring"; int inner = k >= 2 ? (int)vt_randn(k - 1) : -1; for (int64_t j = 0; j < sz; j++) if (d[j] && dist[j] > inner) set[n++] = d[j]; break; }
        case 4: { *kind = "ring-with-island"; for (int64_t j = 0; j < sz; j++) if (d[j] && (dist[j] == k || (k >= 3 && dist[j] <= k - 3) || (k < 3 && dist[j] == 0 && k == 2))) set[n++] = d[j]; break; }
        case 5: { *kind = "sparse"; for (int64_t j = 0; j < sz; j++) if (d[j] && vt_randn(100) < 30) set[n++] = d[j]; break; }
        case 6: { *kind = "children"; if (res == 0) { set[n++] = o; break; } H3Index par; int up = 1 + (int)vt_randn(res < 3 ? res : 3); cellToParent(o, res - up, &par); int64_t cn; cellToChildrenSize(par, res, &cn); if (cn > cap) { set[n++] = o; break; }
                  cellToChildren(par, res, set); n = (int)cn; if (vt_randn(2)) { int m = 0; for (int j = 0; j < n; j++) if (vt_randn(100) >= 15) set[m++] = set[j]; n = m; } break; }
        case 7: { *kind = "path"; H3Index t = d[vt_randn(sz)]; int64_t pn; if (!t || gridPathCellsSize(o, t, &pn) || pn > cap || gridPathCells(o, t, set)) { set[0] = o; n = 1; } else n = (int)pn; break; }
        default: { *kind = "few"; int m = 1 + (int)vt_randn(4); for (int j = 0; j < m; j++) { H3Index c = d[vt_randn(sz)]; int dup = 0; for (int q = 0; q < n; q++) if (set[q] == c) dup = 1; if (c && !dup) set[n++] = c; } break; }
    }
    free(d); free(dist);
    /* shuffle: the result must not depend on the order */
    for (int j = n - 1; j > 0; j--) { int q = (int)vt_randn(j + 1); H3Index t = set[j]; set[j] = set[q]; set[q] = t; }
    return n;
}

/* 1 if some meridian misses every cell of the set (the longitude intervals of the cells do not cover the circle) */
static int cmp_dd(const void *a, const void *b) { double x = ((const double *)a)[0], y = ((const double *)b)[0]; return x < y ? -1 : x > y; }
static int g_cov0, g_covpi;   /* set by lng_gap: some cell's longitude interval contains the prime meridian / the antimeridian */
static int lng_gap(const H3Index *set, int n) {
    g_cov0 = g_covpi = 0;
    double (*iv)[2] = malloc(sizeof(double[2]) * (2 * n + 2)); int m = 0;
    for (int i = 0; i < n; i++) { CellBoundary cb; if (!isValidCell(set[i]) || cellToBoundary(set[i], &cb)) continue;
        double l[MAX_CELL_BNDRY_VERTS]; for (int j = 0; j < cb.numVerts; j++) l[j] = cb.verts[j].lng; qsort(l, cb.numVerts, sizeof(double), cmp_dd);
        double bg = l[0] + 2 * M_PI - l[cb.numVerts - 1]; int bi = cb.numVerts - 1; for (int j = 0; j + 1 < cb.numVerts; j++) if (l[j + 1] - l[j] > bg) { bg = l[j + 1] - l[j]; bi = j; }
        /* the cell's interval is the complement of its widest gap: from l[bi+1] eastwards to l[bi] */
        double lo = l[(bi + 1) % cb.numVerts], hi = l[bi];
        if (lo <= hi) { if (lo <= 0 && hi >= 0) g_cov0 = 1; } else { g_covpi = 1; if (lo <= 0 || hi >= 0) g_cov0 = 1; }
        if (lo <= hi) { iv[m][0] = lo; iv[m][1] = hi; m++; } else { iv[m][0] = lo; iv[m][1] = M_PI; m++; iv[m][0] = -M_PI; iv[m][1] = hi; m++; } }
    if (!m) { free(iv); g_have_fanref = 0; return 1; }
    qsort(iv, m, sizeof(double[2]), cmp_dd);
    /* the widest free arc of longitudes (cyclic) and its middle */
    double reach = iv[0][1], best = 0, mid = 0;
    for (int i = 1; i < m; i++) { if (iv[i][0] > reach && iv[i][0] - reach > best) { best = iv[i][0] - reach; mid = (iv[i][0] + reach) / 2; } if (iv[i][1] > reach) reach = iv[i][1]; }
    { double wrapgap = (iv[0][0] + 2 * M_PI) - reach; if (wrapgap > best) { best = wrapgap; mid = reach + wrapgap / 2; if (mid > M_PI) mid -= 2 * M_PI; } }
    free(iv);
    if (best > 1e-9) { /* reference of the area fans: the point of the equator opposite the middle of the free arc. Its antipode lies on a meridian no cell
                          touches, so it is outside every polygon and every hole, and the fan from the reference measures, for each loop, the side
                          that does not contain that antipode: the polygon side of an outer loop, the inside of a hole */
        g_fanref = (L3){-cosl((long double)mid), -sinl((long double)mid), 0}; g_have_fanref = 1; return 1; }
    g_have_fanref = 0; return 0;
}
static int has_pole_cell(const H3Index *set, int n) {
    int res = -1; for (int i = 0; i < n; i++) if (isValidCell(set[i])) { res = getResolution(set[i]); break; } if (res < 0) return 0;
    LatLng np = {M_PI_2, 0}, sp = {-M_PI_2, 0}; H3Index a = 0, b = 0; latLngToCell(&np, res, &a); latLngToCell(&sp, res, &b);
    for (int i = 0; i < n; i++) if (set[i] == a || set[i] == b) return 1; return 0;
}

/* belts: every cell of a coarse resolution whose centre lies in a latitude / longitude window up to 340 degrees wide, with a few
 * interior cells removed: outlines wider than half the globe that do (or do not) cross the antimeridian */
static int gen_belt(H3Index *set, int cap, int res, int i) {
    double L = (15 + 30 * vt_rand01()) * M_PI / 180, W = (50 + 120 * vt_rand01()) * M_PI / 180; double wmax = 5.2 / (4 * sin(L)); if (W > wmax) W = wmax;
    double c0 = i % 3 == 0 ? 0 : i % 3 == 1 ? M_PI : (vt_rand01() - 0.5) * 2 * M_PI; double lat0 = (vt_rand01() - 0.5) * 0.6;
    CellVec all = {0}; cv_all_cells(&all, res); int n = 0; int pct = (int)vt_randn(3) * 4;
    for (int64_t k = 0; k < all.n; k++) { LatLng c; cellToLatLng(all.v[k], &c); double dl = c.lng - c0; while (dl > M_PI) dl -= 2 * M_PI; while (dl < -M_PI) dl += 2 * M_PI;
        if (fabs(c.lat - lat0) > L || fabs(dl) > W) continue;
        int interior = fabs(c.lat - lat0) < 0.7 * L && fabs(dl) < 0.9 * W;
        if (interior && (int)vt_randn(100) < pct) continue;
        if (n < cap) set[n++] = all.v[k]; }
    /* at least one hole: drop an interior cell near the middle if none was dropped */
    if (pct == 0 && n > 10) { LatLng g = {lat0, c0}; H3Index h = 0; latLngToCell(&g, res, &h); for (int k = 0; k < n; k++) if (set[k] == h && (i & 1)) { set[k] = set[--n]; break; } }
    cv_free(&all);
    for (int j = n - 1; j > 0; j--) { int q = (int)vt_randn(j + 1); H3Index t = set[j]; set[j] = set[q]; set[q] = t; }
    return n;
}

static long n_sets = 0; static long double worst_units = 0;
static void run_set(const H3Index *set, int n, const char *kind, int variant) {
    H3Index *in = malloc(sizeof(H3Index) * (n + 2)); memcpy(in, set, sizeof(H3Index) * n); int m = n;
    if (variant == 1 && n >= 2) in[n / 2] = 0;                                    /* H3_NULL inside: error path after the graph has nodes */
    if (variant == 2 && n >= 2) in[n - 1] = in[n - 1] | ((uint64_t)7 << 56);      /* reserved bits set: invalid cell at the end */
    if (variant == 3) in[m++] = 0x8f00000000000000ULL;
    LinkedGeoPolygon out; memset(&out, 0, sizeof out);
    fputs("{\"e\":\"Reset\"}\n", vt_out);
    fprintf(vt_out, "{\"e\":\"Call\",\"f\":\"cellsToLinkedMultiPolygon\",\"scen\":%ld,\"plan\":{\"kind\":\"never\",\"i\":0}}\n", n_sets);
    g_nptr = 0; g_logging = 1; H3Error r = cellsToLinkedMultiPolygon(in, m, &out); g_logging = 0;
    fprintf(vt_out, "{\"e\":\"Return\",\"f\":\"cellsToLinkedMultiPolygon\",\"scen\":%ld,\"r\":%u}\n", n_sets, r);
    if (r == 0 || variant == 0) {
        /* ---- projection of the result (an error return on a valid set is an observation too: no polygons) */
        if (r) memset(&out, 0, sizeof out);
        int np = 0, nv = 0; for (LinkedGeoPolygon *p = &out; p; p = p->next) { if (p->first || (p == &out && !r)) np++; for (LinkedGeoLoop *lp = p->first; lp; lp = lp->next) for (LinkedLatLng *v = lp->first; v; v = v->next) nv++; }
        vid_reset(m * 10 + nv + 16);
        int dom = 1; long double maxlat = 0; L3 mean = {0, 0, 0};
        fprintf(vt_out, "{\"e\":\"lmp\",\"kind\":\"%s\",\"variant\":%d,\"rc\":%u,\"res\":%d,\"cells\":", kind, variant, r, m ? getResolution(in[0]) : -1); vt_words(in, m);
        int gap = lng_gap(in, m);     /* also fixes the reference point of the area fans */
        long double *ca = malloc(sizeof(long double) * (m + 1)); long double tot = 0; int okc = 0;
        fputs(",\"cb\":[", vt_out);
        for (int i = 0; i < m; i++) { CellBoundary cb; memset(&cb, 0, sizeof cb); ca[i] = 0; fputs(i ? ",[" : "[", vt_out);
            if (isValidCell(in[i]) && !cellToBoundary(in[i], &cb)) { L3 q[MAX_CELL_BNDRY_VERTS]; for (int j = 0; j < cb.numVerts; j++) { fprintf(vt_out, "%s%d", j ? "," : "", vid_get(&cb.verts[j])); q[j] = l3_of(&cb.verts[j]); mean = l3_add(mean, q[j]); if (fabsl(cb.verts[j].lat) > maxlat) maxlat = fabsl(cb.verts[j].lat); }
                ca[i] = loop_area(q, cb.numVerts); tot += ca[i]; okc++; }
            fputc(']', vt_out); }
        fputc(']', vt_out);
        mean = l3_unit(mean); long double maxang = 0;
        for (int i = 0; i < g_nvp; i++) { long double a = l3_angle(mean, g_vp[i].p); if (a > maxang) maxang = a; }
        /* the property's domain: the footprint reaches no pole; and, so that "counter-clockwise" and "enclosed area" are
         * unambiguous for the projection, it leaves some meridian free (does not wrap around the globe) and covers less than
         * 0.9 of a hemisphere */
        (void)maxang;
        if (maxlat > 1.45L || okc == 0 || tot > 0.9L * 2 * M_PI || !gap || has_pole_cell(in, m)) dom = 0;
        long double unit = okc ? tot / okc / 10000.0L : 1;
        fputs(",\"ca\":[", vt_out); for (int i = 0; i < m; i++) fprintf(vt_out, "%s%ld", i ? "," : "", (long)llroundl(ca[i] / unit)); fputc(']', vt_out);
        fprintf(vt_out, ",\"dom\":%d,\"bm\":%d,\"polys\":[", dom, g_cov0 && g_covpi);
        int fp = 1;
        for (LinkedGeoPolygon *p = &out; p && !r; p = p->next) {
            if (!p->first && p != &out) continue;
            fputs(fp ? "[" : ",[", vt_out); fp = 0; int fl = 1;
            for (LinkedGeoLoop *lp = p->first; lp; lp = lp->next) {
                int cnt = 0; for (LinkedLatLng *v = lp->first; v; v = v->next) cnt++;
                L3 *q = malloc(sizeof(L3) * (cnt + 1)); int j = 0;
                fputs(fl ? "{\"ids\":[" : ",{\"ids\":[", vt_out); fl = 0;
                for (LinkedLatLng *v = lp->first; v; v = v->next) { fprintf(vt_out, "%s%d", j ? "," : "", vid_get(&v->vertex)); q[j++] = l3_of(&v->vertex); }
                long double a = cnt >= 3 ? loop_area(q, cnt) : 0; free(q);
                fprintf(vt_out, "],\"w\":%d,\"a\":%ld}", a > 0 ? 1 : -1, (long)llroundl(a / unit));
            }
            fputc(']', vt_out);
        }
        fputs("]}\n", vt_out); free(ca);
        if (!r) {
        fprintf(vt_out, "{\"e\":\"Call\",\"f\":\"destroyLinkedMultiPolygon\",\"scen\":%ld,\"plan\":{\"kind\":\"never\",\"i\":0}}\n", n_sets);
        g_logging = 1; destroyLinkedMultiPolygon(&out); g_logging = 0;
        fprintf(vt_out, "{\"e\":\"Return\",\"f\":\"destroyLinkedMultiPolygon\",\"scen\":%ld,\"r\":0}\n", n_sets);
        }
    }
    free(in); n_sets++;
}

int main(int argc, char **argv) {
    if (argc < 5 || strcmp(argv[1], "run")) return 2;
    int quick = argv[2][0] == 'q'; vt_seed(strtoull(argv[3], 0, 10) + 16); vt_open(argv[4]);
    g_ptr = malloc(sizeof(void *) * MAXBLK);
    for (int r = 0; r <= 15; r++) getPentagons(r, PENT[r]);
    int cap = 20000; H3Index *set = malloc(sizeof(H3Index) * cap);
    int per = quick ? 10 : 120;
    for (int i = 1; i <= (quick ? 260 : 4000); i++) { const char *kind = "?"; int res = 1 + (int)vt_randn(15); int n = gen_set(set, cap, res, -i, &kind, quick); if (n > 0) run_set(set, n, kind, 0); }
    for (int res = 0; res <= 15; res++) for (int i = 0; i < per; i++) {
        const char *kind = "?"; int n = gen_set(set, cap, res, i, &kind, quick); if (n <= 0) continue;
        run_set(set, n, kind, 0);
        if (i % 7 == 3) run_set(set, n, kind, 1 + (i / 7) % 3);                   /* error paths: allocator contract */
    }
    for (int i = 0; i < (quick ? 12 : 90); i++) { int res = quick ? i % 2 : i % 3; int n = gen_belt(set, cap, res, i); if (n > 0) run_set(set, n, "belt", 0); }
    /* error path through normalisation: all base cells but two far apart (outside the domain: reaches the poles) */
    { H3Index r0[122]; getRes0Cells(r0); int n = 0; for (int i = 0; i < 122; i++) if (i != 30 && i != 90) set[n++] = r0[i]; run_set(set, n, "globe-minus-two", 0); }
    { H3Index r0[122]; getRes0Cells(r0); run_set(r0, 122, "globe", 0); }
    fputs("{\"e\":\"Reset\"}\n", vt_out);
    fprintf(stderr, "sets=%ld\n", n_sets);
    vt_close(); return 0;
}
