/* C12 driver: every exported function on arbitrary arguments, with output buffers of exactly the documented
 * size (guarded).  drv_api <n> <seed> <start> <out>
 * Calls are numbered; the driver can be restarted at <start> after a crash (the python side appends a Crash
 * event).  assert()/NEVER()/ALWAYS() aborts are caught (SIGABRT -> siglongjmp) and logged as Abort events. */
#include <limits.h>
#include <setjmp.h>
#include <signal.h>
#include "vtrace.h"
#include <unistd.h>
#include <sys/time.h>
#include <time.h>

static sigjmp_buf jb; static volatile sig_atomic_t in_call = 0;
static void on_abrt(int s) { (void)s; if (in_call) siglongjmp(jb, 1); _exit(3); }
static volatile int g_hung = 0;
static void on_alrm(int s) { (void)s; if (in_call) { g_hung = 1; siglongjmp(jb, 1); } }

static long g_id = 0; static const char *g_f = "";
static H3Index g_cells[64]; static int g_ncells = 0;
static void prod(H3Index h) { if (g_ncells < 64) g_cells[g_ncells++] = h; }
static void prod_arr(const H3Index *a, int64_t n) { for (int64_t i = 0; i < n && g_ncells < 64; i += (n > 64 ? n / 48 + 1 : 1)) prod(a[i]); }

/* argument pools */
static uint64_t any_word(void) {
    switch (vt_randn(10)) {
        case 0: return vt_rand();
        case 1: return 0;
        case 2: case 3: case 4: return vt_random_cell((int)vt_randn(16));
        case 5: return vt_mutate_word(vt_random_cell((int)vt_randn(16)));
        case 6: return vt_mutate_word(vt_mutate_word(vt_mutate_word(vt_random_cell((int)vt_randn(16)))));
        case 7: { H3Index c = vt_random_cell((int)vt_randn(16)), e[6]; originToDirectedEdges(c, e); H3Index x = e[vt_randn(6)]; return vt_randn(3) ? x : vt_mutate_word(x); }
        case 8: { H3Index c = vt_random_cell((int)vt_randn(16)), v[6]; cellToVertexes(c, v); H3Index x = v[vt_randn(6)]; return vt_randn(3) ? x : vt_mutate_word(x); }
        default: { H3Index c = vt_random_cell((int)vt_randn(16)); return (c & ~((uint64_t)15 << 59)) | (vt_randn(16) << 59) | (vt_randn(8) << 56); }
    }
}
static int any_res(void) { static const int x[] = {-1, 16, 17, -2, INT_MAX, INT_MIN, 255, 1 << 16, -16}; return vt_randn(4) ? (int)vt_randn(16) : x[vt_randn(9)]; }
static int any_k(void) { static const int x[] = {-1, -2, INT_MIN, 0, 1, 2, 3, 5, 8, 20, 40}; return x[vt_randn(11)]; }
static double any_dbl(int lat) {
    static const double sp[] = {0.0, -0.0, 1e300, -1e300, 1e-300, 4.9e-324, 1e18, -1e18, M_PI, -M_PI, M_PI / 2, -M_PI / 2, 2 * M_PI, 1e9};
    switch (vt_randn(12)) { case 0: return NAN; case 1: return INFINITY; case 2: return -INFINITY; case 3: case 4: return sp[vt_randn(14)];
        default: return lat ? (vt_rand01() - 0.5) * M_PI : (vt_rand01() - 0.5) * 4 * M_PI; }
}
static uint32_t any_flags(void) { static const uint32_t x[] = {4, 5, 8, 16, 0x80000000u, 0xffffffffu, 7, 1u << 16}; return vt_randn(3) ? (uint32_t)vt_randn(4) : x[vt_randn(8)]; }

/* event writer */
static int g_guard;
#define ARG_BEGIN() fprintf(vt_out, "{\"e\":\"api\",\"id\":%ld,\"f\":\"%s\"", g_id, g_f)
static void ev_end(H3Error r, const char *extra) {
    ARG_BEGIN(); fprintf(vt_out, ",\"r\":%u,\"g\":%d%s,\"cells\":", r, g_guard, extra); vt_words(g_cells, g_ncells); fputs("}\n", vt_out);
}
static char xb[512];

static LatLng g_verts[3][12]; static GeoLoop g_holes[2]; static GeoPolygon g_poly;
static double g_poly_rad = 0;
static int poly_res_cap(void) { /* finest resolution at which the polygon's disc holds at most ~20000 cells */
    double km2 = M_PI * g_poly_rad * g_poly_rad * 6371.0 * 6371.0 * 4; int cap = 0;
    for (int r = 0; r <= 15; r++) { double a; getHexagonAreaAvgKm2(r, &a); if (km2 / a <= 20000) cap = r; }
    return cap;
}
static void any_polygon(void) {
    int wild = vt_randn(5) == 0; LatLng c = {(vt_rand01() - 0.5) * 3.0, (vt_rand01() - 0.5) * 6.2}; double rad = 0.001 + vt_rand01() * (wild ? 1.5 : 0.05); g_poly_rad = rad;
    for (int l = 0; l < 3; l++) { int n = l == 0 ? (int)vt_randn(9) : 3 + (int)vt_randn(5);
        for (int i = 0; i < n; i++) { double a = 2 * M_PI * i / (n ? n : 1), rr = rad * (l ? 0.3 : 1) * (0.5 + vt_rand01());
            g_verts[l][i].lat = wild && vt_randn(6) == 0 ? any_dbl(1) : c.lat + rr * sin(a); g_verts[l][i].lng = wild && vt_randn(6) == 0 ? any_dbl(0) : c.lng + rr * cos(a) + l * rad * 0.4; }
        if (l == 0) { g_poly.geoloop.numVerts = n; g_poly.geoloop.verts = g_verts[0]; } else { g_holes[l - 1].numVerts = n; g_holes[l - 1].verts = g_verts[l]; } }
    g_poly.numHoles = (int)vt_randn(3); g_poly.holes = g_holes;
}

static void one_call(void) {
    int fn = (int)vt_randn(62); g_ncells = 0; g_guard = 1; xb[0] = 0; H3Error r = 0;
    uint64_t h = any_word(), h2 = vt_randn(3) ? any_word() : h; int res = any_res(), k = any_k();
    /* related second cell: often a neighbour / same resolution */
    if (vt_randn(2) && isValidCell(h)) { H3Index d[7] = {0}; gridDisk(h, 1, d); if (d[3]) h2 = d[3]; }
    char hw[128]; snprintf(hw, sizeof hw, ",\"h\":[%u,%u,%u,%u],\"h2\":[%u,%u,%u,%u]", (unsigned)(h >> 45), (unsigned)((h >> 30) & 0x7fff), (unsigned)((h >> 15) & 0x7fff), (unsigned)(h & 0x7fff),
             (unsigned)(h2 >> 45), (unsigned)((h2 >> 30) & 0x7fff), (unsigned)((h2 >> 15) & 0x7fff), (unsigned)(h2 & 0x7fff));
#define F(name) g_f = name
#define X(...) snprintf(xb, sizeof xb, __VA_ARGS__)
    switch (fn) {
        case 0: { F("latLngToCell"); LatLng g = {any_dbl(1), any_dbl(0)}; H3Index o = 0; r = latLngToCell(&g, res, &o); if (!r) prod(o); X(",\"res\":%d,\"nf\":%d", res, !(isfinite(g.lat) && isfinite(g.lng))); break; }
        case 1: { F("other"); LatLng g; r = cellToLatLng(h, &g); break; }
        case 2: { F("other"); CellBoundary *cb = gb_alloc(1, sizeof(CellBoundary), 0); r = cellToBoundary(h, cb); g_guard = gb_ok(cb); gb_free(cb); break; }
        case 3: { F("maxGridDiskSize"); int64_t n; r = maxGridDiskSize(k, &n); X(",\"k\":%d", k); break; }
        case 4: case 5: case 6: case 7: case 8: { static const char *nm[] = {"gridDisk", "gridDiskDistances", "gridDiskDistancesSafe", "gridDiskUnsafe", "gridDiskDistancesUnsafe"};
            F(nm[fn - 4]); int64_t n; if (maxGridDiskSize(k < 0 ? 0 : k, &n)) n = 1; H3Index *o = gb_alloc(n, 8, 0); int *d = gb_alloc(n, sizeof(int), 0);
            r = fn == 4 ? gridDisk(h, k, o) : fn == 5 ? gridDiskDistances(h, k, o, vt_randn(2) ? d : NULL) : fn == 6 ? gridDiskDistancesSafe(h, k, o, d) : fn == 7 ? gridDiskUnsafe(h, k, o) : gridDiskDistancesUnsafe(h, k, o, vt_randn(2) ? d : NULL);
            g_guard = gb_ok(o) && gb_ok(d); if (!r) prod_arr(o, n); gb_free(o); gb_free(d); X(",\"k\":%d", k); break; }
        case 9: { F("other"); int kk = k < 0 ? 0 : k; int64_t n = kk ? 6 * (int64_t)kk : 1; H3Index *o = gb_alloc(n, 8, 0); r = gridRingUnsafe(h, kk, o); g_guard = gb_ok(o); if (!r) prod_arr(o, n); gb_free(o); break; }
        case 10: { F("other"); int kk = k < 0 ? 0 : (k > 8 ? 8 : k); int64_t n; maxGridDiskSize(kk, &n); H3Index set[3] = {h, h2, any_word()}; H3Index *o = gb_alloc(3 * n, 8, 0); r = gridDisksUnsafe(set, 3, kk, o); g_guard = gb_ok(o); if (!r) prod_arr(o, 3 * n); gb_free(o); break; }
        case 11: case 12: case 13: case 14: { static const char *nm[] = {"maxPolygonToCellsSize", "polygonToCells", "maxPolygonToCellsSizeExperimental", "polygonToCellsExperimental"};
            F(nm[fn - 11]); any_polygon(); uint32_t fl = any_flags(); int pr = vt_randn(3) ? (int)vt_randn(poly_res_cap() + 1) : res; if (pr >= 0 && pr <= 15 && pr > poly_res_cap()) pr = poly_res_cap(); int64_t n = 0;
            if (fn == 11) r = maxPolygonToCellsSize(&g_poly, pr, fl, &n);
            else if (fn == 13) r = maxPolygonToCellsSizeExperimental(&g_poly, pr, fl, &n);
            else { H3Error rs = fn == 12 ? maxPolygonToCellsSize(&g_poly, pr, fl, &n) : maxPolygonToCellsSizeExperimental(&g_poly, pr, fl, &n);
                   if (fn == 12 && (rs || n > 300000 || n < 0)) { r = rs; g_f = "other"; break; }   /* legacy fill: no documented buffer size available */
                   if (rs || n > 300000 || n < 0) n = 16;
                   if (fn == 14 && vt_randn(2)) n = (int64_t)vt_randn((uint64_t)n + 1);      /* any capacity is a documented size for the experimental fill */
                   H3Index *o = gb_alloc(n, 8, 0);
                   r = fn == 12 ? polygonToCells(&g_poly, pr, fl, o) : polygonToCellsExperimental(&g_poly, pr, fl, n, o); g_guard = gb_ok(o); if (!r) prod_arr(o, n); gb_free(o);
                 }
            X(",\"res\":%d,\"flags\":%d", pr, (int)(fl > 0x7fffffffu ? -1 : (int)fl)); break; }
        case 15: { F("other"); H3Index set[40]; int n = 0;
            if (vt_randn(2)) { n = 1 + (int)vt_randn(12); int kk = (int)vt_randn(2); H3Index d[7] = {0}; if (isValidCell(h)) gridDisk(h, kk, d); for (int i = 0; i < n; i++) set[i] = vt_randn(4) && d[i % 7] ? d[i % 7] : any_word(); }
            else { /* a disk with several separate holes (many more inner loops than outer ones), now and then a stray word */
                int kk = 2 + (int)vt_randn(2); H3Index d[37] = {0}; int dist[37]; if (isValidCell(h) && !gridDiskDistances(h, kk, d, dist)) { for (int i = 0; i < (kk == 2 ? 19 : 37); i++) if (d[i] && (dist[i] == kk || vt_randn(5))) set[n++] = d[i]; }
                if (n == 0) set[n++] = any_word(); else if (vt_randn(8) == 0) set[vt_randn(n)] = any_word(); }
            LinkedGeoPolygon lp; memset(&lp, 0, sizeof lp); r = cellsToLinkedMultiPolygon(set, n, &lp); if (!r) destroyLinkedMultiPolygon(&lp); break; }
        case 16: { F("other"); volatile double x = degsToRads(any_dbl(0)) + radsToDegs(any_dbl(0)); (void)x; LatLng a = {any_dbl(1), any_dbl(0)}, b = {any_dbl(1), any_dbl(0)}; x = greatCircleDistanceRads(&a, &b) + greatCircleDistanceKm(&a, &b) + greatCircleDistanceM(&a, &b); break; }
        case 17: case 18: case 19: case 20: case 21: { static const char *nm[] = {"getHexagonAreaAvgKm2", "getHexagonAreaAvgM2", "getHexagonEdgeLengthAvgKm", "getHexagonEdgeLengthAvgM", "getNumCells"};
            F(nm[fn - 17]); double o; int64_t n; r = fn == 17 ? getHexagonAreaAvgKm2(res, &o) : fn == 18 ? getHexagonAreaAvgM2(res, &o) : fn == 19 ? getHexagonEdgeLengthAvgKm(res, &o) : fn == 20 ? getHexagonEdgeLengthAvgM(res, &o) : getNumCells(res, &n); X(",\"res\":%d", res); break; }
        case 22: { F("other"); double o; r = cellAreaRads2(h, &o); if (!r) r = cellAreaKm2(h, &o); if (!r) r = cellAreaM2(h, &o); break; }
        case 23: { F("other"); double o; r = edgeLengthRads(h, &o); if (!r) r = edgeLengthKm(h, &o); if (!r) r = edgeLengthM(h, &o); break; }
        case 24: { F("other"); H3Index *o = gb_alloc(122, 8, 0); r = getRes0Cells(o); g_guard = gb_ok(o); prod_arr(o, 122); gb_free(o); (void)res0CellCount(); (void)pentagonCount(); break; }
        case 25: { F("getPentagons"); H3Index *o = gb_alloc(12, 8, 0); r = getPentagons(res, o); g_guard = gb_ok(o); if (!r) prod_arr(o, 12); gb_free(o); X(",\"res\":%d", res); break; }
        case 26: { F("other"); (void)getResolution(h); (void)getBaseCellNumber(h); (void)isValidCell(h); (void)isResClassIII(h); (void)isPentagon(h); (void)isValidDirectedEdge(h); (void)isValidVertex(h); (void)describeH3Error((H3Error)vt_randn(40)); (void)describeH3Error((H3Error)vt_rand()); break; }
        case 27: { F("h3ToString"); size_t sz = vt_randn(40); char *b = gb_alloc(sz ? sz : 1, 1, 0x55); r = h3ToString(h, b, sz); g_guard = gb_ok(b); gb_free(b); X(",\"sz\":%d", (int)sz); break; }
        case 28: { F("other"); char s[24]; int n = (int)vt_randn(20); for (int i = 0; i < n; i++) s[i] = (char)(1 + vt_randn(255)); s[n] = 0; H3Index o; r = stringToH3(s, &o); break; }
        case 29: { F("cellToParent"); H3Index o = 0; r = cellToParent(h, res, &o); if (!r && isValidCell(h)) prod(o); X(",\"res\":%d", res); break; }
        case 30: { F("cellToChildrenSize"); int64_t n; r = cellToChildrenSize(h, res, &n); X(",\"res\":%d", res); break; }
        case 31: { F("other"); int cr = getResolution(h) + (int)vt_randn(4); int64_t n; if (cellToChildrenSize(h, cr, &n) || n > 3000) break; H3Index *o = gb_alloc(n, 8, 0); r = cellToChildren(h, cr, o); g_guard = gb_ok(o); if (!r && isValidCell(h)) prod_arr(o, n); gb_free(o); break; }
        case 32: { F("cellToCenterChild"); H3Index o = 0; r = cellToCenterChild(h, res, &o); if (!r && isValidCell(h)) prod(o); X(",\"res\":%d", res); break; }
        case 33: { F("cellToChildPos"); int64_t p; r = cellToChildPos(h, res, &p); X(",\"res\":%d", res); break; }
        case 34: { F("childPosToCell"); static const int64_t ps[] = {0, 1, -1, 6, 7, 48, 343, INT64_MAX, INT64_MIN, 1LL << 40}; int64_t p = ps[vt_randn(10)];
            if (vt_randn(2)) { int cr2 = getResolution(h) + (int)vt_randn(4); int64_t cnt; if (cr2 <= 15 && !cellToChildrenSize(h, cr2, &cnt)) { res = cr2; p = cnt - 1 + (int64_t)vt_randn(3) + (vt_randn(4) ? 0 : (int64_t)vt_randn(cnt)); } }
            H3Index o = 0; r = childPosToCell(p, h, res, &o); if (!r && isValidCell(h)) prod(o);
            { int neg = p < 0; uint64_t u = neg ? (uint64_t)(-(p + 1)) + 1 : (uint64_t)p; unsigned l0 = (unsigned)(u % 16807); u /= 16807; unsigned l1 = (unsigned)(u % 16807); u /= 16807; unsigned l2 = (unsigned)(u % 16807); u /= 16807; unsigned l3 = (unsigned)(u % 16807); u /= 16807;
              X(",\"res\":%d,\"p\":{\"s\":%d,\"l\":[%u,%u,%u,%u,%u]}", res, neg, l0, l1, l2, l3, (unsigned)u); } break; }
        case 35: { F("other"); int n = 1 + (int)vt_randn(60); H3Index *set = calloc(n, 8); H3Index d[61] = {0}; if (isValidCell(h)) gridDisk(h, 4, d); for (int i = 0; i < n; i++) set[i] = vt_randn(8) && d[i] ? d[i] : any_word();
            if (vt_randn(3) == 0 && isValidCell(h) && getResolution(h) < 15) { int64_t m; cellToChildrenSize(h, getResolution(h) + 1, &m); if (m <= n) cellToChildren(h, getResolution(h) + 1, set); }
            int allv = 1; for (int i = 0; i < n; i++) if (!isValidCell(set[i])) allv = 0;
            H3Index *o = gb_alloc(n, 8, 0); r = compactCells(set, o, n); g_guard = gb_ok(o); if (!r && allv) prod_arr(o, n);
            if (!r) { int64_t sz; int ur = any_res(); H3Error rs = uncompactCellsSize(o, n, ur, &sz); if (!rs && sz >= 0 && sz < 200000) { H3Index *u = gb_alloc(sz, 8, 0); H3Error ru = uncompactCells(o, n, u, sz, ur); g_guard = g_guard && gb_ok(u); if (!ru && allv) prod_arr(u, sz); gb_free(u); } }
            gb_free(o); free(set); break; }
        case 36: { F("other"); int mf = 5; H3Error rm = maxFaceCount(h, &mf); if (rm || mf < 1 || mf > 8) mf = 5; int *o = gb_alloc(mf, sizeof(int), 0); r = getIcosahedronFaces(h, o); g_guard = gb_ok(o); gb_free(o); break; }
        case 37: { F("other"); int o; r = areNeighborCells(h, h2, &o); break; }
        case 38: { F("other"); H3Index o = 0; r = cellsToDirectedEdge(h, h2, &o); break; }
        case 39: { F("other"); H3Index o = 0; r = getDirectedEdgeOrigin(h, &o); if (!r && isValidDirectedEdge(h)) prod(o); break; }
        case 40: { F("other"); H3Index o = 0; r = getDirectedEdgeDestination(h, &o); if (!r && isValidDirectedEdge(h)) prod(o); break; }
        case 41: { F("other"); H3Index *o = gb_alloc(2, 8, 0); r = directedEdgeToCells(h, o); g_guard = gb_ok(o); if (!r && isValidDirectedEdge(h)) prod_arr(o, 2); gb_free(o); break; }
        case 42: { F("other"); H3Index *o = gb_alloc(6, 8, 0); r = originToDirectedEdges(h, o); g_guard = gb_ok(o); gb_free(o); break; }
        case 43: { F("other"); CellBoundary *cb = gb_alloc(1, sizeof(CellBoundary), 0); r = directedEdgeToBoundary(h, cb); g_guard = gb_ok(cb); gb_free(cb); break; }
        case 44: { F("cellToVertex"); int vn = (int)vt_randn(12) - 3; if (vt_randn(8) == 0) vn = vt_randn(2) ? INT_MAX : INT_MIN; H3Index o = 0; r = cellToVertex(h, vn, &o); X(",\"vn\":%d", vn); break; }
        case 45: { F("other"); H3Index *o = gb_alloc(6, 8, 0); r = cellToVertexes(h, o); g_guard = gb_ok(o); gb_free(o); break; }
        case 46: { F("other"); LatLng g; r = vertexToLatLng(h, &g); break; }
        case 47: { F("gridDistance"); int64_t d; r = gridDistance(h, h2, &d); break; }
        case 48: { F("other"); int64_t n; H3Error rs = gridPathCellsSize(h, h2, &n); if (rs || n > 100000 || n < 0) { r = rs; break; } H3Index *o = gb_alloc(n, 8, 0); r = gridPathCells(h, h2, o); g_guard = gb_ok(o); if (!r) prod_arr(o, n); gb_free(o); break; }
        case 49: { F("cellToLocalIj"); uint32_t mode = vt_randn(4) ? 0 : (uint32_t)(1 + vt_randn(5)); CoordIJ ij; r = cellToLocalIj(h, h2, mode, &ij); X(",\"mode\":%d", (int)mode); break; }
        case 50: { F("localIjToCell"); uint32_t mode = vt_randn(4) ? 0 : (uint32_t)(1 + vt_randn(5)); static const int ex[] = {INT_MAX, INT_MIN, 1 << 30, -(1 << 30), 100000, -100000}; CoordIJ ij = {vt_randn(3) ? (int)vt_randn(41) - 20 : ex[vt_randn(6)], vt_randn(3) ? (int)vt_randn(41) - 20 : ex[vt_randn(6)]};
            H3Index o = 0; r = localIjToCell(h, &ij, mode, &o); if (!r) prod(o); X(",\"mode\":%d", (int)mode); break; }
        default: { /* short call sequences feeding outputs forward: cell -> children -> compact -> uncompact -> disk -> path -> edges -> vertexes */
            F("other"); H3Index c = isValidCell(h) ? h : vt_random_cell((int)vt_randn(14)); int cr = getResolution(c) + 1; if (cr > 15) cr = 15;
            int64_t n; cellToChildrenSize(c, cr, &n); H3Index *ch = gb_alloc(n, 8, 0); r = cellToChildren(c, cr, ch); prod_arr(ch, n);
            H3Index *cp = gb_alloc(n, 8, 0); if (!r) r = compactCells(ch, cp, n); prod_arr(cp, n);
            H3Index *dk = gb_alloc(19, 8, 0); if (!r) r = gridDisk(ch[n - 1], 2, dk); prod_arr(dk, 19);
            H3Index d0 = 0, d1 = 0; for (int i = 0; i < 19; i++) if (dk[i]) { if (!d0) d0 = dk[i]; else d1 = dk[i]; }
            int64_t pn; if (!r && d0 && d1 && !gridPathCellsSize(d0, d1, &pn) && pn < 100) { H3Index *p = gb_alloc(pn, 8, 0); gridPathCells(d0, d1, p); prod_arr(p, pn); g_guard = g_guard && gb_ok(p); gb_free(p); }
            H3Index e[6], v[6]; if (!r && d0) { originToDirectedEdges(d0, e); for (int i = 0; i < 6; i++) if (e[i]) { H3Index dd; if (!getDirectedEdgeDestination(e[i], &dd)) prod(dd); } cellToVertexes(d0, v); for (int i = 0; i < 6; i++) if (v[i]) { LatLng g; vertexToLatLng(v[i], &g); H3Index back; if (!latLngToCell(&g, cr, &back)) prod(back); } }
            g_guard = g_guard && gb_ok(ch) && gb_ok(cp) && gb_ok(dk); gb_free(ch); gb_free(cp); gb_free(dk); break; }
    }
    /* the closure clause speaks about results computed from valid inputs: garbage in, unconstrained out */
    if (!(fn == 0 || fn == 24 || fn == 25 || fn >= 51)) {
        int two = (fn == 10 || fn == 37 || fn == 38 || fn == 47 || fn == 48 || fn == 49);
        if (!isValidCell(h) && !(fn >= 39 && fn <= 41)) g_ncells = 0;
        if (two && !isValidCell(h2)) g_ncells = 0;
        if (fn == 10) g_ncells = 0;
    }
    strncat(xb, hw, sizeof xb - strlen(xb) - 1);
    ev_end(r, xb);
}

int main(int argc, char **argv) {
    if (argc < 5) return 2;
    long n = atol(argv[1]), start = atol(argv[3]); uint64_t seed = strtoull(argv[2], 0, 10);
    vt_out = fopen(argv[4], start ? "a" : "w"); if (!vt_out) return 2;
    signal(SIGABRT, on_abrt); signal(SIGVTALRM, on_alrm);
    for (g_id = start; g_id < n; g_id++) {
        vt_seed(seed * 1000003ULL + (uint64_t)g_id * 7919ULL);       /* every call is reproducible from (seed, id) */
        in_call = 1;
        g_hung = 0; { struct itimerval it = {{0, 0}, {120, 0}}; setitimer(ITIMER_VIRTUAL, &it, NULL); }   /* 120 s of CPU time in one call: a Hang event */
        clock_t c0 = clock();
        if (sigsetjmp(jb, 1) == 0) one_call();
        else { fprintf(vt_out, "{\"e\":\"%s\",\"id\":%ld,\"f\":\"%s\"}\n", g_hung ? "Hang" : "Abort", g_id, g_f); signal(SIGABRT, on_abrt); signal(SIGVTALRM, on_alrm); }
        { struct itimerval it = {{0, 0}, {0, 0}}; setitimer(ITIMER_VIRTUAL, &it, NULL); }
        if (getenv("VERIF_SLOW") && (double)(clock() - c0) / CLOCKS_PER_SEC > 0.5) fprintf(stderr, "SLOW id=%ld f=%s %.2fs\n", g_id, g_f, (double)(clock() - c0) / CLOCKS_PER_SEC);
        in_call = 0;
        if ((g_id & 1023) == 0) fflush(vt_out);
    }
    fclose(vt_out);
    return 0;
}
