/* C06 driver: compactCells / uncompactCells / uncompactCellsSize on generated cell sets, each in 3 orders.
 *   drv_compact <quick|thorough> <seed> <out> */
#include "vtrace.h"

static int cmp_u64(const void *a, const void *b) { uint64_t x = *(const uint64_t *)a, y = *(const uint64_t *)b; return x < y ? -1 : x > y; }
static void dedupe(CellVec *c) {
    qsort(c->v, c->n, 8, cmp_u64); int64_t m = 0;
    for (int64_t i = 0; i < c->n; i++) if (c->v[i] && (m == 0 || c->v[m - 1] != c->v[i])) c->v[m++] = c->v[i];
    c->n = m;
}
static void shuffle(uint64_t *v, int64_t n) { for (int64_t i = n - 1; i > 0; i--) { int64_t j = (int64_t)vt_randn(i + 1); uint64_t t = v[i]; v[i] = v[j]; v[j] = t; } }

static void ev_uncompact(const H3Index *cs, int64_t ncs, int res, int64_t cap) {
    H3Index *o = gb_alloc(cap ? cap : 1, sizeof(H3Index), 0); for (int64_t i = 0; i < cap; i++) o[i] = VT_SENTINEL;
    H3Error r = uncompactCells(cs, ncs, o, cap, res);
    fputs("{\"e\":\"uncompact\",\"cs\":", vt_out); vt_words(cs, ncs);
    fprintf(vt_out, ",\"res\":%d,\"cap\":%d,\"r\":%u,\"guard\":%d,\"out\":", res, (int)cap, r, gb_ok(o)); vt_words(o, cap); fputs("}\n", vt_out);
    gb_free(o);
}
static void ev_size(const H3Index *cs, int64_t ncs, int res) {
    int64_t n = -7; H3Error r = uncompactCellsSize(cs, ncs, res, &n);
    fputs("{\"e\":\"uncompactSize\",\"cs\":", vt_out); vt_words(cs, ncs); fprintf(vt_out, ",\"res\":%d,\"r\":%u,\"n\":", res, r); vt_big(n); fputs("}\n", vt_out);
}
static void run_set(CellVec *s, const char *kind, int full) {
    dedupe(s); if (s->n == 0) return;
    int res = getResolution(s->v[0]);
    for (int order = 0; order < 3; order++) {
        if (order == 1) { for (int64_t i = 0; i < s->n / 2; i++) { uint64_t t = s->v[i]; s->v[i] = s->v[s->n - 1 - i]; s->v[s->n - 1 - i] = t; } }
        if (order == 2) shuffle(s->v, s->n);
        H3Index *out = gb_alloc(s->n, sizeof(H3Index), 0);
        H3Error r = compactCells(s->v, out, s->n);
        fprintf(vt_out, "{\"e\":\"compact\",\"kind\":\"%s\",\"order\":%d,\"r\":%u,\"guard\":%d,\"in\":", kind, order, r, gb_ok(out));
        vt_words(s->v, s->n); fputs(",\"out\":", vt_out); vt_words(out, s->n); fputs("}\n", vt_out);
        if (order == 2 && r == 0 && full) {
            H3Index cs[4096]; int64_t ncs = 0; for (int64_t i = 0; i < s->n && ncs < 4096; i++) if (out[i]) cs[ncs++] = out[i];
            if (ncs < 4096) {
                ev_size(cs, ncs, res); ev_size(out, s->n > 300 ? 300 : s->n, res);   /* with null entries */
                if (res < 15) ev_size(cs, ncs, res + 1);
                if (res > 0) ev_size(cs, ncs, res - 1);
                if (s->n <= 600) {
                    ev_uncompact(cs, ncs, res, s->n); ev_uncompact(cs, ncs, res, s->n - 1); ev_uncompact(cs, ncs, res, s->n + 3);
                    if (s->n > 8) ev_uncompact(cs, ncs, res, (int64_t)vt_randn(s->n));
                    if (res > 0) ev_uncompact(cs, ncs, res - 1, s->n);
                    ev_uncompact(cs, ncs, res, 0);
                }
            }
        }
        gb_free(out);
    }
}
static void add_children(CellVec *s, H3Index p, int cr) {
    int64_t n; if (cellToChildrenSize(p, cr, &n)) return; H3Index *ch = calloc(n, 8); cellToChildren(p, cr, ch);
    for (int64_t i = 0; i < n; i++) if (ch[i]) cv_push(s, ch[i]); free(ch);
}
static void add_disk(CellVec *s, H3Index h, int k) {
    int64_t n; maxGridDiskSize(k, &n); H3Index *d = calloc(n, 8); gridDisk(h, k, d); for (int64_t i = 0; i < n; i++) if (d[i]) cv_push(s, d[i]); free(d);
}

/* model -> code: a scenario of H3CompactAlgo (m parents with chosen numbers of children, a chosen slot for every parent, a
 * presentation order) realised with real cells: parents are searched for whose index has the wanted residue modulo the
 * round's size n, so that the probe sequences of the model (shared slot, adjacent slots, wrap-around at slot n - 1, a
 * pentagon parent in the chain, complete parents behind incomplete ones) happen in the real hash table. */
static void collide_scenario(int res, int pat) {
    int m = 2 + (int)vt_randn(4), k[6], pentAt = vt_randn(3) == 0 ? (int)vt_randn(m) : -1, n = 0;
    for (int i = 0; i < m; i++) { int lim = i == pentAt ? 6 : 7; int w = (int)vt_randn(4); k[i] = w == 0 ? lim : w == 1 ? lim - 1 : 1 + (int)vt_randn(lim); n += k[i]; }
    int base = pat == 1 ? n - 1 : pat == 2 ? n - 2 : (int)vt_randn(n);
    H3Index par[6], pent[12]; getPentagons(res - 1, pent);
    CellVec s = {0};
    for (int i = 0; i < m; i++) {
        int want = pat == 3 ? (base + i) % n : pat == 2 ? (base + (i & 1)) % n : base;   /* 0/1: one slot; 2: two adjacent slots at the end; 3: a run */
        H3Index p = 0;
        for (int tries = 0; tries < 20000 && !p; tries++) {
            H3Index c = i == pentAt ? pent[vt_randn(12)] : 0; if (!c) cellToParent(vt_random_cell(res), res - 1, &c);
            int dup = 0; for (int j = 0; j < i; j++) if (par[j] == c) dup = 1;
            if (!dup && (int)(c % (uint64_t)n) == want) p = c;
            if (i == pentAt && tries > 200) pentAt = -2;   /* no pentagon with that residue: take a hexagon (k <= 6 is fine for it too) */
        }
        if (!p) { cv_free(&s); return; }
        par[i] = p;
        CellVec t = {0}; add_children(&t, p, res); shuffle(t.v, t.n); for (int j = 0; j < k[i] && j < t.n; j++) cv_push(&s, t.v[j]); cv_free(&t);
    }
    run_set(&s, "collide", 1); cv_free(&s);
}

int main(int argc, char **argv) {
    if (argc < 4) return 2;
    int quick = argv[1][0] == 'q'; vt_seed(strtoull(argv[2], 0, 10) + 6); vt_open(argv[3]);
    int rounds = quick ? 60 : 900;
    H3Index pent[12];
    for (int it = 0; it < rounds; it++) {
        int res = 1 + (int)vt_randn(15);
        CellVec s = {0};
        switch (it % 10) {
            case 0: add_disk(&s, vt_random_cell(res), (int)vt_randn(quick ? 5 : 9)); run_set(&s, "disk", 1); break;
            case 1: { int up = 1 + (int)vt_randn(res < 3 ? res : 3); H3Index p; cellToParent(vt_random_cell(res), res - up, &p); add_children(&s, p, res); run_set(&s, "subtree", 1); break; }
            case 2: { int up = 1 + (int)vt_randn(res < 3 ? res : 3); H3Index p; cellToParent(vt_random_cell(res), res - up, &p); add_children(&s, p, res);
                      s.v[vt_randn(s.n)] = 0; if (vt_randn(2)) s.v[vt_randn(s.n)] = 0; run_set(&s, "subtree-minus", 1); break; }
            case 3: { H3Index p; cellToParent(vt_random_cell(res), res - 1, &p); add_children(&s, p, res); int drop = 1 + (int)vt_randn(5); for (int q = 0; q < drop; q++) s.v[vt_randn(s.n)] = 0;
                      add_disk(&s, vt_random_cell(res), 1); run_set(&s, "partial-siblings", 1); break; }
            case 4: { /* pentagon families at depth 1..3 (4 thorough) */
                      int up = 1 + (int)vt_randn(res < (quick ? 3 : 4) ? res : (quick ? 3 : 4)); getPentagons(res - up, pent); add_children(&s, pent[vt_randn(12)], res);
                      if (vt_randn(3) == 0) s.v[vt_randn(s.n)] = 0; run_set(&s, "pentagon-family", 1); break; }
            case 5: { /* union: subtree + disk + pentagon family + isolated cells */
                      H3Index p; int up = 1 + (int)vt_randn(res < 2 ? res : 2); cellToParent(vt_random_cell(res), res - up, &p); add_children(&s, p, res);
                      add_disk(&s, s.v[vt_randn(s.n)], 2 + (int)vt_randn(3)); getPentagons(res - 1, pent); add_children(&s, pent[vt_randn(12)], res);
                      cv_random_cells(&s, res, 5); run_set(&s, "union", 1); break; }
            case 6: { /* pentagon disk: the pentagon with rings around it, at a finer resolution */
                      getPentagons(res, pent); add_disk(&s, pent[vt_randn(12)], 1 + (int)vt_randn(quick ? 4 : 8)); run_set(&s, "pentagon-disk", 1); break; }
            case 7: { cv_random_cells(&s, res, 1 + (int)vt_randn(30)); run_set(&s, "isolated", 1); break; }
            case 8: { /* multi-round: all descendants 2..3 levels below a res-(r-k) cell plus siblings' partial families */
                      int up = res >= 3 ? 3 : res; H3Index p; cellToParent(vt_random_cell(res), res - up, &p); add_children(&s, p, res);
                      H3Index d[7] = {0}; gridDisk(p, 1, d); for (int q = 0; q < 7; q++) if (d[q] && d[q] != p && vt_randn(2)) { CellVec t = {0}; add_children(&t, d[q], res); for (int64_t z = 0; z < t.n; z++) if (vt_randn(8)) cv_push(&s, t.v[z]); cv_free(&t); }
                      run_set(&s, "multi-round", s.n <= 600); break; }
            default: { /* res-0/1 whole globe pieces */
                      int r2 = (int)vt_randn(3); CellVec all = {0}; cv_all_cells(&all, r2); for (int64_t z = 0; z < all.n; z++) if (vt_randn(10)) cv_push(&s, all.v[z]); cv_free(&all); run_set(&s, "globe", s.n <= 600); break; }
        }
        cv_free(&s);
    }
    for (int it = 0; it < (quick ? 120 : 3000); it++) collide_scenario(1 + (int)vt_randn(15), it % 4);
    /* a few large sets */
    for (int it = 0; it < (quick ? 1 : 4); it++) {
        CellVec s = {0}; int res = 5 + (int)vt_randn(10);
        int pr = res - (quick ? 4 : 5 + (it == 3)); if (pr < 0) pr = 0;
        H3Index p = 0; if (cellToParent(vt_random_cell(res), pr, &p)) continue; add_children(&s, p, res);
        if (s.n == 0) { cv_free(&s); continue; }
        for (int q = 0; q < 50; q++) s.v[vt_randn(s.n)] = 0;
        run_set(&s, "large", 0); cv_free(&s);
    }
    vt_close();
    return 0;
}
