/* C17 (+ release clauses of C16) driver.
 *   built in mode dbg   : drv_alloc ref <tier> <seed> <out.txt>      reference digests with the default allocator
 *   built in mode alloc : drv_alloc run <tier> <seed> <ref.txt> <out.ndjson>   (-DVERIF_ALLOC_SHIM, lib with -DH3_ALLOC_PREFIX=verif_)
 * The shim logs every allocation / release the library performs and refuses allocations according to the plan. */
#include "vtrace.h"

/* ------------------------------------------------------------------ allocator shim */
static int g_armed = 0;   /* the target call of a scenario runs with logging on; scenario set-up runs with it off */
#define ARM() (g_logging = g_armed)
#define DISARM() (g_logging = 0)
static int g_logging = 0, g_kind = 0 /*0 never,1 nth,2 from*/, g_i = 0, g_n = 0;
#define MAXBLK 200000
static void *g_ptr[MAXBLK]; static int g_nptr = 0;
static int blk_id(void *p, int add) {
    for (int i = g_nptr - 1; i >= 0; i--) if (g_ptr[i] == p) return i + 1;
    if (!add) return -1;
    if (g_nptr >= MAXBLK) { fprintf(stderr, "too many blocks\n"); exit(2); }
    g_ptr[g_nptr++] = p; return g_nptr;
}
#ifdef VERIF_ALLOC_SHIM
static int should_fail(void) { g_n++; return (g_kind == 1 && g_n == g_i) || (g_kind == 2 && g_n >= g_i); }
static void *do_alloc(const char *kind, size_t bytes, int zero) {
    if (!g_logging) return zero ? calloc(1, bytes ? bytes : 1) : malloc(bytes ? bytes : 1);
    if (should_fail()) { fprintf(vt_out, "{\"e\":\"Alloc\",\"kind\":\"%s\",\"id\":0,\"ok\":0,\"sz\":%zu}\n", kind, bytes); return NULL; }
    void *p = zero ? calloc(1, bytes ? bytes : 1) : malloc(bytes ? bytes : 1);
    /* a recycled address gets a fresh id: ids are never reused */
    if (g_nptr >= MAXBLK) { fprintf(stderr, "too many blocks\n"); exit(2); }
    g_ptr[g_nptr++] = p;
    fprintf(vt_out, "{\"e\":\"Alloc\",\"kind\":\"%s\",\"id\":%d,\"ok\":1,\"sz\":%zu}\n", kind, g_nptr, bytes);
    return p;
}
void *verif_malloc(size_t size) { return do_alloc("malloc", size, 0); }
void *verif_calloc(size_t num, size_t size) { return do_alloc("calloc", num * size, 1); }
/* realloc through the seam: one allocation attempt; on success the old block is released and a new one handed out (two events),
 * on refusal the old block stays live and NULL is returned (C semantics) */
void *verif_realloc(void *ptr, size_t size) {
    if (!g_logging) return realloc(ptr, size ? size : 1);
    if (!ptr) return do_alloc("realloc", size, 0);
    if (should_fail()) { fprintf(vt_out, "{\"e\":\"Alloc\",\"kind\":\"realloc\",\"id\":0,\"ok\":0,\"sz\":%zu}\n", size); return NULL; }
    int id = blk_id(ptr, 0);
    void *p = realloc(ptr, size ? size : 1);
    fprintf(vt_out, "{\"e\":\"Free\",\"id\":%d}\n", id); if (id > 0) g_ptr[id - 1] = NULL;
    if (g_nptr >= MAXBLK) { fprintf(stderr, "too many blocks\n"); exit(2); }
    g_ptr[g_nptr++] = p;
    fprintf(vt_out, "{\"e\":\"Alloc\",\"kind\":\"realloc\",\"id\":%d,\"ok\":1,\"sz\":%zu}\n", g_nptr, size);
    return p;
}
void verif_free(void *ptr) {
    if (!g_logging) { free(ptr); return; }
    if (!ptr) { fputs("{\"e\":\"Free\",\"id\":0}\n", vt_out); return; }
    int id = blk_id(ptr, 0);
    fprintf(vt_out, "{\"e\":\"Free\",\"id\":%d}\n", id);
    if (id > 0) { g_ptr[id - 1] = NULL; free(ptr); }      /* a foreign/double free is logged, not executed */
}
#endif

/* ------------------------------------------------------------------ digests */
static uint64_t fnv(uint64_t h, const void *p, size_t n) { const unsigned char *b = p; for (size_t i = 0; i < n; i++) { h ^= b[i]; h *= 0x100000001b3ULL; } return h; }
#define FNV0 0xcbf29ce484222325ULL

/* ------------------------------------------------------------------ scenarios */
typedef struct { const char *f; int kind; int a, b, c; } Scen;
static Scen S[16000]; static int NS = 0;
static void add(const char *f, int kind, int a, int b, int c) { if (NS < 16000) { S[NS].f = f; S[NS].kind = kind; S[NS].a = a; S[NS].b = b; S[NS].c = c; NS++; } }
static H3Index PENT[16][12];
static LinkedGeoPolygon g_lgp; static int g_have_lgp = 0;

static H3Index cell_near_pentagon(int res, int pi, int ring) { /* ring 0: the pentagon, 1: neighbour, 3: three away */
    H3Index p = PENT[res][pi % 12]; if (ring == 0) return p;
    int64_t sz; maxGridDiskSize(ring, &sz); H3Index *d = calloc(sz, 8); int *dist = calloc(sz, sizeof(int)); gridDiskDistancesSafe(p, ring, d, dist);
    H3Index r = p; for (int64_t i = 0; i < sz; i++) if (d[i] && dist[i] == ring) { r = d[i]; if ((i + pi) % 3 == 0) break; }
    free(d); free(dist); return r;
}
static H3Index far_cell(int res, int k) { H3Index h = 0; LatLng g = {0.3 + 0.01 * k, 0.7 + 0.013 * k}; latLngToCell(&g, res, &h); return h; }

/* cells at the ends of the domain the fills iterate over: the first and the last cell in index order (and their opposite-corner
 * relatives), the cells on the poles, on the antimeridian.  An iterator-based fill ends / starts its traversal there. */
static H3Index extreme_cell(int res, int place) {
    H3Index h = 0; LatLng g;
    switch (place % 7) {
        case 0: case 1: case 5: case 6: {
            int bc = (place % 7 == 0 || place % 7 == 5) ? 0 : 121; int dg = (place % 7 == 0 || place % 7 == 6) ? 0 : 6;
            H3Index r0[122]; getRes0Cells(r0); h = r0[bc];
            for (int r = 1; r <= res; r++) { H3Index ch[7]; cellToChildren(h, r, ch); h = ch[dg]; }
            return h; }
        case 2: g.lat = M_PI / 2; g.lng = 0; break;
        case 3: g.lat = -M_PI / 2; g.lng = 0; break;
        default: g.lat = 0.1; g.lng = M_PI; break;
    }
    latLngToCell(&g, res, &h); return h;
}

/* builds a polygon from the boundary of `outer` with nh holes (boundaries of descendants) */
static CellBoundary g_cb[3]; static GeoLoop g_holes[2]; static GeoPolygon g_poly;
static void make_poly(H3Index outer, int nh) {
    cellToBoundary(outer, &g_cb[0]); g_poly.geoloop.numVerts = g_cb[0].numVerts; g_poly.geoloop.verts = g_cb[0].verts;
    int res = getResolution(outer); g_poly.numHoles = 0; g_poly.holes = g_holes;
    if (nh >= 1 && res + 2 <= 15) { H3Index c; cellToCenterChild(outer, res + 2, &c); cellToBoundary(c, &g_cb[1]); g_holes[0].numVerts = g_cb[1].numVerts; g_holes[0].verts = g_cb[1].verts; g_poly.numHoles = 1; }
    if (nh >= 2 && res + 2 <= 15) { H3Index c; cellToCenterChild(outer, res + 1, &c); H3Index d[7] = {0}; gridDisk(c, 1, d); H3Index pick = 0; for (int i = 0; i < 7; i++) if (d[i] && d[i] != c) { pick = d[i]; break; }
        H3Index cc; cellToCenterChild(pick, res + 2, &cc); cellToBoundary(cc, &g_cb[2]); g_holes[1].numVerts = g_cb[2].numVerts; g_holes[1].verts = g_cb[2].verts; g_poly.numHoles = 2; }
}

/* runs scenario s; returns code, writes digest */
static H3Error run_scen(const Scen *s, uint64_t *dig) {
    uint64_t h = FNV0; H3Error r = 0;
    switch (s->kind) {
        case 1: { /* compactCells: a=res, b=depth (rounds), c=variant */
            int res = s->a, up = s->b; H3Index root = s->c % 2 ? PENT[res - up][s->c % 12] : far_cell(res - up, s->c);
            int64_t n; cellToChildrenSize(root, res, &n); H3Index *in = calloc(n + 8, 8), *out = calloc(n + 8, 8); cellToChildren(root, res, in);
            int64_t m = n;
            if (s->c / 12 == 1) in[m++] = in[0];                                         /* duplicate */
            if (s->c / 12 == 2) in[1] |= (uint64_t)3 << 56;                              /* reserved bits set */
            if (s->c / 12 == 3 && res < 15) cellToCenterChild(in[2], res + 1, &in[2]);   /* mixed resolutions */
            if (s->c / 12 == 4) in[m - 1] = 0, m--;                                      /* incomplete: fewer rounds */
            if (s->c / 12 == 5) { in[1] = in[0]; }                                       /* duplicate inside */
            if (s->c / 12 == 6 && res >= 2) cellToParent(in[2], res - 2, &in[2]);        /* a cell two levels coarser among the others */
            if (s->c / 12 == 7 && res >= 3) { cellToParent(in[m - 1], res - 3, &in[m - 1]); H3Index t = in[0]; in[0] = in[m - 1]; in[m - 1] = t; }   /* three levels coarser, first */
            ARM(); r = compactCells(in, out, m); DISARM(); h = fnv(h, out, m * 8); free(in); free(out); break; }
        case 2: { /* gridDisk: a=res, b=k, c=origin selector */
            H3Index o = s->c < 100 ? cell_near_pentagon(s->a, s->c, s->c % 4) : s->c < 200 ? far_cell(s->a, s->c) : (s->c == 200 ? 0x89283470c3fffffULL : s->c == 201 ? 0x80fffffffffffffULL : s->c == 202 ? 0x820857fffffffffULL : vt_mutate_word(far_cell(s->a, s->c)));
            int64_t sz; maxGridDiskSize(s->b, &sz); H3Index *out = calloc(sz, 8); ARM(); r = gridDisk(o, s->b, out); DISARM(); h = fnv(h, out, sz * 8); free(out); break; }
        case 3: { /* gridDiskDistances with caller distances (never allocates) / without */
            H3Index o = cell_near_pentagon(s->a, s->c, s->c % 3); int64_t sz; maxGridDiskSize(s->b, &sz); H3Index *out = calloc(sz, 8); int *d = calloc(sz, sizeof(int));
            ARM(); r = gridDiskDistances(o, s->b, out, s->c % 2 ? d : NULL); DISARM(); h = fnv(h, out, sz * 8); free(out); free(d); break; }
        case 4: { /* areNeighborCells: a=res, c selector */
            H3Index o = s->c < 100 ? cell_near_pentagon(s->a, s->c, s->c % 3) : s->c < 200 ? far_cell(s->a, s->c) : 0x820857fffffffffULL;
            H3Index d[7] = {0}; if (s->c < 200) gridDiskDistancesSafe(o, 1, d, (int[7]){0});
            H3Index t = s->c < 200 ? d[1 + s->b % 6] : far_cell(2, 1); if (!t) t = d[2]; if (s->b == 7) t = far_cell(s->a, s->c + 1);
            if (s->c % 2) { H3Index tmp = o; o = t; t = tmp; }
            int out = -1; ARM(); r = areNeighborCells(o, t, &out); DISARM(); h = fnv(h, &out, sizeof out); break; }
        case 5: { /* polygonToCells: a=outer res, b=fill delta, c: holes = c%3, near pentagon = c/3 %2, flags */
            H3Index outer = (s->c / 3) % 2 ? cell_near_pentagon(s->a, s->c, (s->c / 6) % 3) : far_cell(s->a, s->c);
            if (s->c >= 200) outer = extreme_cell(s->a, (s->c - 200) / 12);
            make_poly(outer, s->c % 3); uint32_t flags = s->c >= 60 && s->c < 200 ? 5 : 0; int fr = s->a + s->b; if (s->c >= 70 && s->c < 200) fr = 16;
            int64_t sz = 0; H3Error rs = maxPolygonToCellsSize(&g_poly, fr, flags, &sz); if (rs) { sz = 16; }
            H3Index *out = calloc(sz, 8); ARM(); r = polygonToCells(&g_poly, fr, flags, out); DISARM(); h = fnv(h, out, sz * 8); free(out); break; }
        case 6: case 7: { /* polygonToCellsExperimental / maxPolygonToCellsSizeExperimental: c%3 holes, (c/3)%4 mode, variants */
            H3Index outer = (s->c / 12) % 2 ? cell_near_pentagon(s->a, s->c, (s->c / 24) % 3) : far_cell(s->a, s->c);
            if (s->c >= 200 && s->c < 1000) outer = extreme_cell(s->a, (s->c - 200) / 12);
            make_poly(outer, s->c % 3); uint32_t flags = (s->c / 3) % 4; int fr = s->a + s->b;
            if (s->c >= 96 && s->c < 104) flags = 4 + s->c % 4 * 16; if (s->c >= 104 && s->c < 108) fr = s->c % 2 ? 16 : -1;
            int64_t sz = 0; if (s->kind == 7) ARM(); H3Error rs = maxPolygonToCellsSizeExperimental(&g_poly, fr, flags, &sz); DISARM();
            if (s->kind == 7) { r = rs; h = fnv(h, &sz, rs ? 0 : sizeof sz); break; }
            if (rs) sz = 16; if (s->c >= 108 && s->c < 200) sz = sz > 3 ? 3 : 0;        /* capacity exceeded */
            if (s->c >= 1000 && sz > (s->c - 1000) / 12) sz = (s->c - 1000) / 12;       /* capacity sweep: every size below the need */
            H3Index *out = calloc(sz + 1, 8); ARM(); r = polygonToCellsExperimental(&g_poly, fr, flags, sz, out); DISARM(); h = fnv(h, out, sz * 8); free(out); break; }
        case 8: { /* cellsToLinkedMultiPolygon (retains memory on success) */
            H3Index o = s->c % 2 ? cell_near_pentagon(s->a, s->c, s->c % 3) : far_cell(s->a, s->c);
            int64_t sz; maxGridDiskSize(s->b, &sz); H3Index *set = calloc(sz, 8); gridDisk(o, s->b, set);
            int64_t m = 0; for (int64_t i = 0; i < sz; i++) if (set[i] && !(s->c >= 10 && i % 5 == 2)) set[m++] = set[i];
            if (s->c >= 20) set[m++] = set[0];                                            /* duplicate cell: error path */
            memset(&g_lgp, 0, sizeof g_lgp); ARM(); r = cellsToLinkedMultiPolygon(set, (int)m, &g_lgp); DISARM(); g_have_lgp = (r == 0);
            int np = 0, nl = 0, nv = 0; if (!r) for (LinkedGeoPolygon *p = &g_lgp; p; p = p->next) { np++; for (LinkedGeoLoop *lp = p->first; lp; lp = lp->next) { nl++; for (LinkedLatLng *v = lp->first; v; v = v->next) { nv++; h = fnv(h, &v->vertex, sizeof(LatLng)); } } }
            h = fnv(h, &np, sizeof np); h = fnv(h, &nl, sizeof nl); h = fnv(h, &nv, sizeof nv); free(set); break; }
        case 9: { ARM(); destroyLinkedMultiPolygon(&g_lgp); DISARM(); g_have_lgp = 0; r = 0; break; }
    }
    h = fnv(h, &r, sizeof r); *dig = h; return r;
}

static void build_scenarios(int quick) {
    for (int r = 0; r <= 15; r++) getPentagons(r, PENT[r]);
    /* compactCells: 0..3 rounds, pentagon and hexagon roots, error exits */
    for (int up = 0; up <= (quick ? 2 : 3); up++) for (int v = 0; v < 96; v += (quick ? 5 : 1)) { int res = 3 + (v % 9); if (res - up < 0) continue; add("compactCells", 1, res, up, v); }
    add("compactCells", 1, 0, 0, 2);
    /* large inputs (more than 512 / 4096 cells): 4 and 5 levels of a hexagon and of a pentagon, complete and with a leaf missing */
    for (int v = 0; v < 4; v++) { add("compactCells", 1, 6 + v, 4, v % 2 ? 1 : 2); add("compactCells", 1, 6 + v, 4, v % 2 ? 49 : 50); }
    if (!quick) for (int v = 0; v < 2; v++) add("compactCells", 1, 9 + v, 5, v % 2 ? 1 : 2);
    /* gridDisk: near pentagon (fallback allocates), far (none), invalid origins (error path after fallback) */
    for (int k = 0; k <= (quick ? 2 : 4); k++) for (int c = 0; c < 12; c += (quick ? 3 : 1)) { add("gridDisk", 2, 2 + (c % 9), k, c); add("gridDisk", 2, 3 + c % 5, k, 100 + c); }
    for (int c = 200; c <= (quick ? 204 : 230); c++) add("gridDisk", 2, 4 + c % 6, 1 + c % 3, c);
    for (int k = 1; k <= 3; k++) for (int c = 0; c < (quick ? 6 : 24); c++) add("gridDiskDistances", 3, 1 + (c % 12), k, c);
    /* areNeighborCells: sibling shortcut, via disk next to pentagons, non-neighbours, invalid */
    for (int c = 0; c < (quick ? 24 : 100); c++) for (int b = 0; b < 8; b += (quick ? 3 : 1)) add("areNeighborCells", 4, 1 + (c % 13), b, c);
    for (int c = 100; c < (quick ? 106 : 130); c++) add("areNeighborCells", 4, 2 + (c % 10), c % 8, c);
    add("areNeighborCells", 4, 2, 0, 200);
    /* polygonToCells: holes 0..2, near / far from pentagons, several resolutions, bad flags, bad res */
    for (int a = 1; a <= (quick ? 5 : 10); a += 2) for (int b = 1; b <= 2; b++) for (int c = 0; c < 18; c += (quick ? 2 : 1)) add("polygonToCells", 5, a, b, c);
    add("polygonToCells", 5, 3, 1, 60); add("polygonToCells", 5, 3, 1, 70); add("polygonToCells", 5, 3, 1, 64);
    /* experimental: all modes x holes x near/far, bad flags, bad res, capacity exceeded */
    for (int a = 1; a <= (quick ? 5 : 10); a += 2) for (int b = 1; b <= 2; b++) for (int c = 0; c < 72; c += (quick ? 5 : 1)) { add("polygonToCellsExperimental", 6, a, b, c); add("maxPolygonToCellsSizeExperimental", 7, a, b, c); }
    /* the ends of the iteration domain (first / last cell in index order, poles, antimeridian), outer res 0 included */
    for (int a = 0; a <= (quick ? 4 : 9); a += (quick ? 2 : 1)) for (int place = 0; place < 7; place++) for (int c = 0; c < 12; c += (quick ? 5 : 1)) {
        add("polygonToCellsExperimental", 6, a, 1, 200 + 12 * place + c); add("maxPolygonToCellsSizeExperimental", 7, a, 1, 200 + 12 * place + c);
        if (c % 3 == 0 || !quick) add("polygonToCells", 5, a, 1, 200 + 12 * place + c); }
    for (int c = 96; c < 112; c++) { add("polygonToCellsExperimental", 6, 3, 1, c); if (c < 108) add("maxPolygonToCellsSizeExperimental", 7, 3, 1, c); }
    /* capacity sweep: a polygon filled 2 (3) levels below its own cell, so that the compact iterator holds cells coarser than the
     * target, with every output capacity from 0 up to the need: the E_MEMORY_BOUNDS exit can be taken at every position */
    for (int cap = 0; cap <= 80; cap++) for (int v = 0; v < 12; v += (quick ? 5 : 1)) add("polygonToCellsExperimental", 6, 2 + cap % 7, 2, 1000 + 12 * cap + v);
    for (int cap = 0; cap <= 420; cap += (quick ? 7 : 1)) add("polygonToCellsExperimental", 6, 1 + cap % 9, 3, 1000 + 12 * cap + (cap * 5) % 12);
    /* linked multipolygon + destroy */
    for (int c = 0; c < (quick ? 8 : 30); c++) { add("cellsToLinkedMultiPolygon", 8, 2 + c % 10, 1 + c % 3, c); }
}

int main(int argc, char **argv) {
    if (argc < 5) return 2;
    int quick = argv[2][0] == 'q'; vt_seed(strtoull(argv[3], 0, 10) + 17);
    build_scenarios(quick);
    if (!strcmp(argv[1], "ref")) {
        FILE *o = fopen(argv[4], "w");
        for (int i = 0; i < NS; i++) { uint64_t d; vt_seed(1000 + i); H3Error r = run_scen(&S[i], &d); fprintf(o, "%d %u %" PRIx64 "\n", i, r, d); if (g_have_lgp) { Scen ds = {"destroyLinkedMultiPolygon", 9, 0, 0, 0}; uint64_t dd; run_scen(&ds, &dd); } }
        fclose(o); return 0;
    }
    if (strcmp(argv[1], "run") || argc < 6) return 2;
    FILE *rf = fopen(argv[4], "r"); if (!rf) return 2;
    static unsigned refr[16000]; static uint64_t refd[16000]; int idx; unsigned rr; uint64_t dd;
    while (fscanf(rf, "%d %u %" SCNx64, &idx, &rr, &dd) == 3) if (idx >= 0 && idx < 16000) { refr[idx] = rr; refd[idx] = dd; }
    fclose(rf);
    vt_open(argv[5]);
    for (int i = 0; i < NS; i++) {
        int nallocs = 0;
        /* pass 0: never fail (counts allocations); then fail only the j-th / from the j-th on */
        for (int pass = 0; pass <= 2; pass++) {
            int reps = pass == 0 ? 1 : nallocs;
            if (pass > 0 && S[i].kind >= 8) break;            /* linked multipolygon: release clauses only */
            for (int j = 1; j <= reps; j++) {
                g_kind = pass; g_i = j; g_n = 0;
                fputs("{\"e\":\"Reset\"}\n", vt_out);
                fprintf(vt_out, "{\"e\":\"Call\",\"f\":\"%s\",\"scen\":%d,\"plan\":{\"kind\":\"%s\",\"i\":%d}}\n", S[i].f, i, pass == 0 ? "never" : pass == 1 ? "nth" : "from", pass == 0 ? 0 : j);
                uint64_t d; vt_seed(1000 + i); g_armed = 1; H3Error r = run_scen(&S[i], &d); g_armed = 0;
                if (pass == 0) nallocs = g_n;
                fprintf(vt_out, "{\"e\":\"Return\",\"f\":\"%s\",\"scen\":%d,\"r\":%u,\"nallocs\":%d,\"dig\":", S[i].f, i, r, g_n); vt_word(d);
                if (pass == 0) { fputs(",\"ref\":", vt_out); vt_word(refd[i]); fprintf(vt_out, ",\"refr\":%u", refr[i]); }
                fputs("}\n", vt_out);
                if (g_have_lgp) {
                    fprintf(vt_out, "{\"e\":\"Call\",\"f\":\"destroyLinkedMultiPolygon\",\"scen\":%d,\"plan\":{\"kind\":\"never\",\"i\":0}}\n", i);
                    Scen ds = {"destroyLinkedMultiPolygon", 9, 0, 0, 0}; uint64_t d2; g_armed = 1; run_scen(&ds, &d2); g_armed = 0;
                    fprintf(vt_out, "{\"e\":\"Return\",\"f\":\"destroyLinkedMultiPolygon\",\"scen\":%d,\"r\":0,\"nallocs\":0,\"dig\":[0,0,0,0]}\n", i);
                }
            }
        }
    }
    fputs("{\"e\":\"Reset\"}\n", vt_out);
    vt_close();
    return 0;
}
