/* Hierarchy driver (C04, C13, enumeration part of C03): logs one event per public API call.
 *   drv_hier c04 <quick|thorough> <seed> <out>
 *   drv_hier c13 <quick|thorough> <seed> <out>
 *   drv_hier enum <out>
 */
#include <limits.h>
#include "vtrace.h"

static const int BADRES[] = {-1, 16, 17, -2, INT_MAX, INT_MIN, 255, 1 << 16, -16};
#define NBAD ((int)(sizeof BADRES / sizeof BADRES[0]))

static double tol_rad(double lat) { double t = 4e-15 / cos(lat); return t > 2e-12 ? t : 2e-12; }
static double ang(const LatLng *a, const LatLng *b) {
    double ax = cos(a->lat) * cos(a->lng), ay = cos(a->lat) * sin(a->lng), az = sin(a->lat);
    double bx = cos(b->lat) * cos(b->lng), by = cos(b->lat) * sin(b->lng), bz = sin(b->lat);
    double cx = ay * bz - az * by, cy = az * bx - ax * bz, cz = ax * by - ay * bx;
    return atan2(sqrt(cx * cx + cy * cy + cz * cz), ax * bx + ay * by + az * bz);
}
static long e15(double x) { double v = x * 1e15; if (!(v < 1e9)) v = 1e9; return (long)ceil(v); }

static void ev_parent(H3Index h, int pr) {
    H3Index o = VT_SENTINEL; H3Error r = cellToParent(h, pr, &o);
    fprintf(vt_out, "{\"e\":\"cellToParent\",\"h\":"); vt_word(h);
    fprintf(vt_out, ",\"pr\":%d,\"r\":%u,\"o\":", pr, r); vt_word(o); fputs("}\n", vt_out);
}
static void ev_size(H3Index h, int cr) {
    int64_t n = -7777; H3Error r = cellToChildrenSize(h, cr, &n);
    fprintf(vt_out, "{\"e\":\"cellToChildrenSize\",\"h\":"); vt_word(h);
    fprintf(vt_out, ",\"cr\":%d,\"r\":%u,\"n\":", cr, r); vt_big(n); fputs("}\n", vt_out);
}
static void ev_center(H3Index h, int cr, int geo) {
    H3Index o = VT_SENTINEL; H3Error r = cellToCenterChild(h, cr, &o);
    fprintf(vt_out, "{\"e\":\"cellToCenterChild\",\"h\":"); vt_word(h);
    fprintf(vt_out, ",\"cr\":%d,\"r\":%u,\"o\":", cr, r); vt_word(o);
    if (geo && r == 0) {
        LatLng a, b;
        if (!cellToLatLng(h, &a) && !cellToLatLng(o, &b))
            fprintf(vt_out, ",\"ang\":%ld,\"tol\":%ld", e15(ang(&a, &b)), e15(tol_rad(a.lat)));
    }
    fputs("}\n", vt_out);
}
static void ev_children(H3Index h, int cr, H3Index member) {
    int64_t n; if (cellToChildrenSize(h, cr, &n)) return;
    H3Index *o = gb_alloc(n, sizeof(H3Index), 0);
    H3Error r = cellToChildren(h, cr, o);
    fprintf(vt_out, "{\"e\":\"cellToChildren\",\"h\":"); vt_word(h);
    fprintf(vt_out, ",\"cr\":%d,\"r\":%u,\"guard\":%d,\"o\":", cr, r, gb_ok(o)); vt_words(o, n);
    if (member) { fputs(",\"m\":", vt_out); vt_word(member); }
    fputs("}\n", vt_out);
    gb_free(o);
}
static void ev_children_sampled(H3Index h, int cr, int nsamp) {
    int64_t n; if (cellToChildrenSize(h, cr, &n)) return;
    H3Index *o = gb_alloc(n, sizeof(H3Index), 0);
    H3Error r = cellToChildren(h, cr, o);
    int64_t nz = 0; for (int64_t i = 0; i < n; i++) if (o[i]) nz++;
    fprintf(vt_out, "{\"e\":\"cellToChildrenS\",\"h\":"); vt_word(h);
    fprintf(vt_out, ",\"cr\":%d,\"r\":%u,\"guard\":%d,\"n\":", cr, r, gb_ok(o)); vt_big(nz);
    fputs(",\"s\":[", vt_out);
    for (int k = 0; k < nsamp; k++) {
        int64_t pos;
        if (k == 0) pos = 0; else if (k == 1) pos = n - 1; else if (k == 2) pos = 1; else pos = (int64_t)vt_randn(n);
        if (k >= 3 && k % 3 == 0) { /* around powers of 7 and pentagon widths */
            int64_t p7 = 1; int m = (int)vt_randn(cr - (int)((h >> 52) & 15) + 1); for (int q = 0; q < m; q++) p7 *= 7;
            int64_t cands[4] = {p7, p7 - 1, 1 + 5 * (p7 - 1) / 6, 5 * (p7 - 1) / 6};
            pos = cands[vt_randn(4)]; if (pos < 0 || pos >= n) pos = (int64_t)vt_randn(n);
        }
        fprintf(vt_out, "%s[", k ? "," : ""); vt_big(pos); fputc(',', vt_out); vt_word(o[pos]); fputc(']', vt_out);
    }
    fputs("]}\n", vt_out);
    gb_free(o);
}
static void ev_childpos(H3Index h, int pr) {
    int64_t p = -7777; H3Error r = cellToChildPos(h, pr, &p);
    fprintf(vt_out, "{\"e\":\"cellToChildPos\",\"h\":"); vt_word(h);
    fprintf(vt_out, ",\"pr\":%d,\"r\":%u,\"p\":", pr, r); vt_big(p); fputs("}\n", vt_out);
}
static void ev_postocell(int64_t p, H3Index parent, int cr) {
    H3Index o = VT_SENTINEL; H3Error r = childPosToCell(p, parent, cr, &o);
    fprintf(vt_out, "{\"e\":\"childPosToCell\",\"p\":"); vt_big(p); fputs(",\"h\":", vt_out); vt_word(parent);
    fprintf(vt_out, ",\"cr\":%d,\"r\":%u,\"o\":", cr, r); vt_word(o); fputs("}\n", vt_out);
}
static void ev_ispent(H3Index h) {
    fprintf(vt_out, "{\"e\":\"isPentagon\",\"h\":"); vt_word(h); fprintf(vt_out, ",\"o\":%d}\n", isPentagon(h));
}

/* strata: cells at every resolution: pentagons, cells on / just off the pentagon centre chain, seams, random */
static void strata(CellVec *cv, int perRes, int quick) {
    for (int r = 0; r <= 15; r++) {
        cv_pentagon_strata(cv, r, quick ? 1 : 2);
        cv_random_cells(cv, r, perRes);
        cv_sparse_digit_cells(cv, r, quick);
        if (!quick) cv_seam_cells(cv, r, 2);
    }
}

static void run_c04(int quick) {
    CellVec cv = {0}; strata(&cv, quick ? 6 : 40, quick);
    for (int64_t i = 0; i < cv.n; i++) {
        H3Index h = cv.v[i]; int res = getResolution(h);
        ev_ispent(h);
        /* parents at every ancestor resolution, plus finer and out-of-range ones */
        for (int pr = 0; pr <= res; pr++) ev_parent(h, pr);
        if (res < 15) ev_parent(h, res + 1 + (int)vt_randn(15 - res));
        ev_parent(h, BADRES[vt_randn(NBAD)]);
        /* sizes / centre children at every child resolution, coarser and out of range */
        for (int cr = res; cr <= 15; cr++) { ev_size(h, cr); ev_center(h, cr, (i % 4) == 0); }
        if (res > 0) { int cr = (int)vt_randn(res); ev_size(h, cr); ev_center(h, cr, 0); }
        { int b = BADRES[vt_randn(NBAD)]; ev_size(h, b); ev_center(h, b, 0); }
        /* children: complete lists for n <= 3 (4 for some), sampled for n = 5..8 */
        for (int n = 0; n <= 3 && res + n <= 15; n++) ev_children(h, res + n, 0);
        if (i % 16 == 0 && res + 4 <= 15) ev_children(h, res + 4, 0);
        if (!quick && i % 64 == 0 && res + 5 <= 15) ev_children(h, res + 5, 0);
        if (i % 32 == 1) { int n = 5 + (int)vt_randn(quick ? 2 : 4); if (res + n <= 15) ev_children_sampled(h, res + n, 12); }
        /* partition: the cell is among the children of each ancestor (n <= 4) */
        for (int n = 1; n <= 4 && res - n >= 0; n++) {
            if ((i + n) % 3) continue;
            H3Index p; cellToParent(h, res - n, &p); ev_children(p, res, h);
        }
    }
    cv_free(&cv);
}

static void run_c13(int quick) {
    CellVec cv = {0}; strata(&cv, quick ? 6 : 40, quick);
    for (int64_t i = 0; i < cv.n; i++) {
        H3Index h = cv.v[i]; int res = getResolution(h);
        /* child -> position for every ancestor resolution, bad resolutions */
        for (int pr = 0; pr <= res; pr++) ev_childpos(h, pr);
        if (res < 15) ev_childpos(h, res + 1 + (int)vt_randn(15 - res));
        ev_childpos(h, BADRES[vt_randn(NBAD)]);
        /* position -> child: treat h as parent; depths 0..15-res; positions first/last/boundaries/random/out of range */
        for (int cr = res; cr <= 15; cr++) {
            if (quick && ((cr + i) % 3)) continue;
            int64_t n; cellToChildrenSize(h, cr, &n);
            int64_t p7 = 1; int m = (int)vt_randn(cr - res + 1); for (int q = 0; q < m; q++) p7 *= 7;
            int64_t cand[] = {0, n - 1, n, -1, n + 1, (int64_t)vt_randn(n), (int64_t)vt_randn(n), p7, p7 - 1,
                              1 + 5 * (p7 - 1) / 6, 5 * (p7 - 1) / 6, 1 + 5 * (p7 - 1) / 6 + p7, INT64_MAX, INT64_MIN, n / 2};
            for (unsigned k = 0; k < sizeof cand / sizeof cand[0]; k++) ev_postocell(cand[k], h, cr);
        }
        if (res > 0) ev_postocell(0, h, (int)vt_randn(res));
        ev_postocell(0, h, BADRES[vt_randn(NBAD)]);
        ev_postocell((int64_t)vt_randn(1000), h, BADRES[vt_randn(NBAD)]);
    }
    /* leave-level strata: children whose path leaves the pentagon chain at each level */
    H3Index pent[12]; getPentagons(0, pent);
    for (int pi = 0; pi < 12; pi += quick ? 5 : 1) for (int depth = 1; depth <= 15; depth++) for (int leave = 1; leave <= depth; leave++) {
        H3Index h = pent[pi];
        h = (h & ~((uint64_t)15 << 52)) | ((uint64_t)depth << 52);
        for (int r = 1; r <= depth; r++) {
            uint64_t d = r < leave ? 0 : (r == leave ? 2 + vt_randn(5) : vt_randn(7));
            h = (h & ~((uint64_t)7 << (3 * (15 - r)))) | (d << (3 * (15 - r)));
        }
        for (int pr = 0; pr <= depth; pr++) if (!quick || (pr + depth) % 2 == 0) ev_childpos(h, pr);
    }
    cv_free(&cv);
}

static void run_enum(void) {
    for (int res = -2; res <= 17; res++) {
        int64_t n = -7777; H3Error r = getNumCells(res, &n);
        fprintf(vt_out, "{\"e\":\"getNumCells\",\"res\":%d,\"r\":%u,\"n\":", res, r); vt_big(n); fputs("}\n", vt_out);
        H3Index p[12]; for (int i = 0; i < 12; i++) p[i] = VT_SENTINEL;
        r = getPentagons(res, p);
        fprintf(vt_out, "{\"e\":\"getPentagons\",\"res\":%d,\"r\":%u,\"cnt\":%d,\"o\":", res, r, pentagonCount()); vt_words(p, 12);
        fputs(",\"isPent\":[", vt_out); for (int i = 0; i < 12; i++) fprintf(vt_out, "%s%d", i ? "," : "", r ? 0 : isPentagon(p[i])); fputs("]}\n", vt_out);
    }
    H3Index r0[122]; H3Error r = getRes0Cells(r0);
    fprintf(vt_out, "{\"e\":\"getRes0Cells\",\"r\":%u,\"cnt\":%d,\"o\":", r, res0CellCount()); vt_words(r0, 122); fputs("}\n", vt_out);
}

int main(int argc, char **argv) {
    if (argc >= 5 && !strcmp(argv[1], "c04")) { vt_seed(strtoull(argv[3], 0, 10)); vt_open(argv[4]); run_c04(argv[2][0] == 'q'); }
    else if (argc >= 5 && !strcmp(argv[1], "c13")) { vt_seed(strtoull(argv[3], 0, 10) + 13); vt_open(argv[4]); run_c13(argv[2][0] == 'q'); }
    else if (argc >= 3 && !strcmp(argv[1], "enum")) { vt_open(argv[2]); run_enum(); }
    else return 2;
    vt_close();
    return 0;
}
