/* C02 driver: latLngToCell on constructed and structured points.
 *   drv_ll run <tier> <seed> <out.ndjson>      |      drv_ll measure <tier> <seed>
 * Each event records what the library returned plus the numeric projections of DESIGN 4.3 ("contains": angular distance
 * from the point to the returned cell's boundary polygon, depth of a constructed point inside the cell it was built in),
 * all as integers in units of 1e-15 rad (capped).  The trace specification Trace_LL judges them. */
#include "vtrace.h"
#include "vcontain.h"
#include <float.h>
#include <limits.h>

#define CAP 2000000000L
static long femto(long double rad) { long double v = rad * 1e15L; if (!(v < (long double)CAP)) return CAP; if (v < 0) v = 0; return (long)ceill(v); }
static long femto_floor(long double rad) { long double v = rad * 1e15L; if (!(v < (long double)CAP)) return CAP; if (v < 0) v = 0; return (long)floorl(v); }
static long double worst_dev = 0; static long worst_ratio_ppm = 0; static long n_events = 0;

/* tolerance of the property, in rad */
static long double tol_of(double lat) { long double c = cosl((long double)lat); long double t2 = c > 0 ? 4e-15L / c : 1.0L; return t2 > 2e-12L ? t2 : 2e-12L; }

/* kind: label; cell: the cell the point was constructed in (0 if none); nearc: a cell whose closed 1-disk must contain the
 * answer (0 if none) */
static void ev_ll(const char *kind, double lat, double lng, int res, H3Index cell, H3Index nearc) {
    LatLng g = {lat, lng}; H3Index out = VT_SENTINEL; H3Error rc = latLngToCell(&g, res, &out);
    int fin = isfinite(lat) && isfinite(lng);
    int canon = fin && lat >= -M_PI_2 && lat <= M_PI_2 && lng >= -2 * M_PI && lng <= 2 * M_PI;
    int rclamp = res < -1000 ? -1000 : res > 1000 ? 1000 : res;
    fprintf(vt_out, "{\"e\":\"ll\",\"k\":\"%s\",\"res\":%d,\"fin\":%d,\"canon\":%d,\"rc\":%u,\"wr\":%d,\"out\":", kind, rclamp, fin, canon, rc, out != VT_SENTINEL);
    vt_word(out == VT_SENTINEL ? 0 : out);
    n_events++;
    if (rc == 0 && canon && isValidCell(out)) {
        LatLng c; CellBoundary cb; memset(&cb, 0, sizeof cb);
        if (!cellToLatLng(out, &c) && !cellToBoundary(out, &cb) && cb.numVerts >= 3) {
            Contain k = cell_contains(&c, &cb, &g);
            long double dev = k.inside == 1 ? 0 : k.dist;
            long double tol = tol_of(lat);
            /* integers for TLC (32 bit): units of 1e-15 rad, or of tol / 1e9 when the property's own tolerance is wider than the cap (next
               to the poles it reaches radians): the comparison dev <= tol survives the scaling */
            if (tol * 1e15L >= 1e9L) { long double u = tol / 1e9L; long double dv = dev / u; fprintf(vt_out, ",\"dev\":%ld,\"tol\":%ld", dv < (long double)CAP ? (long)ceill(dv) : CAP, 1000000000L); }
            else fprintf(vt_out, ",\"dev\":%ld,\"tol\":%ld", femto(dev), femto_floor(tol));
            if (dev > worst_dev) worst_dev = dev;
            long ppm = (long)(dev / tol * 1e6L); if (ppm > worst_ratio_ppm) worst_ratio_ppm = ppm;
        } else fprintf(vt_out, ",\"dev\":%ld,\"tol\":0", CAP);
    }
    if (cell) {
        LatLng c; CellBoundary cb; memset(&cb, 0, sizeof cb); long m = 0;
        if (!cellToLatLng(cell, &c) && !cellToBoundary(cell, &cb)) { Contain k = cell_contains(&c, &cb, &g); if (k.inside == 1) m = femto_floor(k.dist); }
        fputs(",\"cell\":", vt_out); vt_word(cell); fprintf(vt_out, ",\"margin\":%ld", m);
    }
    if (nearc) { fputs(",\"near\":", vt_out); vt_word(nearc); }
    fputs("}\n", vt_out);
}

static const long double FR[] = {1e-1L, 1e-2L, 1e-3L, 1e-4L, 1e-6L, 1e-8L, 1e-10L, 1e-12L};
#define NFR 8

/* points a fraction f of the way from a boundary point towards the centre (inside) and the same distance outwards */
static void cell_points(H3Index h, int quick) {
    LatLng c; CellBoundary cb; memset(&cb, 0, sizeof cb);
    if (cellToLatLng(h, &c) || cellToBoundary(h, &cb)) return;
    int res = getResolution(h), n = cb.numVerts; L3 c3 = l3_of(&c);
    for (int i = 0; i < n; i++) {
        if (quick && vt_randn(2)) continue;
        L3 a = l3_of(&cb.verts[i]), b = l3_of(&cb.verts[(i + 1) % n]);
        for (int which = 0; which < 2; which++) {
            /* which 0: a point on the edge (random position, sometimes very close to a corner); 1: the corner itself */
            long double t = which ? 0 : (vt_randn(4) == 0 ? FR[vt_randn(NFR)] : 0.05L + 0.9L * (long double)vt_rand01());
            L3 m = which ? a : l3_lerp(a, b, t);
            for (int fi = 0; fi < NFR; fi++) {
                if (quick && vt_randn(2)) continue;
                long double f = FR[fi];
                L3 in = l3_unit(l3_add(m, l3_scale(l3_sub(c3, m), f)));
                L3 outp = l3_unit(l3_sub(m, l3_scale(l3_sub(c3, m), f)));
                LatLng gi = l3_ll(in), go = l3_ll(outp);
                double sh = 0; int s = (int)vt_randn(6);                      /* the same point named with a longitude outside [-pi, pi] */
                if (s == 0 && gi.lng + 2 * M_PI <= 2 * M_PI) sh = 2 * M_PI; else if (s == 1 && gi.lng - 2 * M_PI >= -2 * M_PI) sh = -2 * M_PI;
                ev_ll(which ? "corner-in" : "edge-in", gi.lat, gi.lng + sh, res, h, h);
                ev_ll(which ? "corner-out" : "edge-out", go.lat, go.lng, res, 0, f <= 1e-2L ? h : 0);
            }
        }
    }
    ev_ll("centre", c.lat, c.lng, res, h, h);
}

/* a few random near-boundary points of one cell (both sides) */
static void cell_points_lite(H3Index h, int npts) {
    LatLng c; CellBoundary cb; memset(&cb, 0, sizeof cb);
    if (cellToLatLng(h, &c) || cellToBoundary(h, &cb)) return;
    int res = getResolution(h), n = cb.numVerts; L3 c3 = l3_of(&c);
    for (int k = 0; k < npts; k++) {
        int i = (int)vt_randn(n); L3 a = l3_of(&cb.verts[i]), b = l3_of(&cb.verts[(i + 1) % n]);
        int corner = vt_randn(4) == 0; L3 m = corner ? a : l3_lerp(a, b, 0.05L + 0.9L * (long double)vt_rand01());
        long double f = FR[vt_randn(NFR)];
        LatLng gi = l3_ll(l3_unit(l3_add(m, l3_scale(l3_sub(c3, m), f)))), go = l3_ll(l3_unit(l3_sub(m, l3_scale(l3_sub(c3, m), f))));
        ev_ll(corner ? "corner-in" : "edge-in", gi.lat, gi.lng, res, h, h);
        ev_ll(corner ? "corner-out" : "edge-out", go.lat, go.lng, res, 0, f <= 1e-2L ? h : 0);
    }
}

/* cells in a band on both sides of every icosahedron edge (face selection), at fine resolutions: near the midpoint of the edge
 * (the point of the edge closest to the two face centres), near its ends and at random positions, 1e-9 .. 3e-3 rad from it */
static void icosa_band(int quick) {
    H3Index p[12]; LatLng g[12]; getPentagons(0, p); L3 v[12];
    for (int i = 0; i < 12; i++) { cellToLatLng(p[i], &g[i]); v[i] = l3_of(&g[i]); }
    static const long double OFF[] = {1e-9L, 1e-8L, 1e-7L, 1e-6L, 1e-5L, 3e-5L, 1e-4L, 2e-4L, 3e-4L, 4.5e-4L, 6e-4L, 1e-3L, 3e-3L};
    for (int i = 0; i < 12; i++) for (int j = i + 1; j < 12; j++) {
        if (l3_angle(v[i], v[j]) > 1.2L) continue;
        L3 nrm = l3_unit(l3_cross(v[i], v[j]));
        int nt = quick ? 4 : 16;
        for (int s = 0; s < nt; s++) {
            long double t = s == 0 ? 0.5L : s == 1 ? 0.5L + 0.03L * ((long double)vt_rand01() - 0.5L) : s == 2 ? 0.02L + 0.1L * (long double)vt_rand01() : (long double)vt_rand01();
            L3 m = l3_lerp(v[i], v[j], t);
            for (int o = 0; o < 13; o++) for (int sg = -1; sg <= 1; sg += 2) {
                if (quick && (o + s) % 2) continue;
                L3 q = l3_unit(l3_add(m, l3_scale(nrm, sg * OFF[o]))); LatLng ll = l3_ll(q);
                int rr[2] = {15 - (int)vt_randn(2), 9 + (int)vt_randn(5)};
                for (int k = 0; k < 2; k++) { H3Index h; if (latLngToCell(&ll, rr[k], &h)) continue; ev_ll("icosa-band", ll.lat, ll.lng, rr[k], 0, 0); cell_points_lite(h, quick ? 3 : 8); }
            }
        }
    }
}

/* cells up to 1e-2 rad around the 20 face centres (where the gnomonic projection starts), fine resolutions: points next to their edges */
static void face_band(int quick) {
    for (int k = 0; k < 2; k++) { int res = k ? 15 - (int)vt_randn(2) : 12 + (int)vt_randn(2); CellVec cv = {0}; cv_face_centre_cells(&cv, res, quick ? 2 : 8);
        for (int64_t i = 0; i < cv.n; i++) { LatLng g; cellToLatLng(cv.v[i], &g); ev_ll("face-band", g.lat, g.lng, res, cv.v[i], cv.v[i]); cell_points_lite(cv.v[i], quick ? 6 : 12); }
        cv_free(&cv); }
}

static void icosa_points(int quick) {
    H3Index p[12]; LatLng g[12]; getPentagons(0, p); L3 v[12];
    for (int i = 0; i < 12; i++) { cellToLatLng(p[i], &g[i]); v[i] = l3_of(&g[i]); }
    static const long double OFF[] = {0, 1e-16L, 1e-15L, 1e-13L, 1e-11L, 1e-9L, 1e-6L, 1e-3L};
    int nper = quick ? 12 : 60;
    for (int i = 0; i < 12; i++) for (int j = i + 1; j < 12; j++) {
        if (l3_angle(v[i], v[j]) > 1.2L) continue;                                /* icosahedron edge = 1.107 rad */
        L3 nrm = l3_unit(l3_cross(v[i], v[j]));
        for (int s = 0; s <= nper; s++) {
            long double t = s == 0 ? 1e-9L : s == nper ? 1 - 1e-9L : (s + (long double)vt_rand01() - 0.5L) / nper;
            L3 m = l3_lerp(v[i], v[j], t);
            for (int o = 0; o < 8; o++) for (int sg = -1; sg <= 1; sg += 2) {
                if (o == 0 && sg == 1) continue;
                L3 q = l3_unit(l3_add(m, l3_scale(nrm, sg * OFF[o]))); LatLng ll = l3_ll(q);
                int nres = quick ? 2 : 3; for (int k = 0; k < nres; k++) ev_ll("icosa-edge", ll.lat, ll.lng, (int)vt_randn(16), 0, 0);
            }
        }
    }
    /* the twelve vertices and the twenty face centres, approached from 8 directions */
    for (int i = 0; i < 12; i++) for (int r = 0; r <= 15; r++) {
        ev_ll("icosa-vertex", g[i].lat, g[i].lng, r, 0, 0);
        L3 up = fabsl(v[i].z) < 0.9L ? (L3){0, 0, 1} : (L3){1, 0, 0}; L3 e1 = l3_unit(l3_cross(up, v[i])), e2 = l3_cross(v[i], e1);
        for (int d = 0; d < 8; d++) for (int o = 1; o < 8; o++) {
            if (quick && vt_randn(3)) continue;
            long double a = d * M_PI / 4 + 0.1L; L3 q = l3_unit(l3_add(v[i], l3_scale(l3_add(l3_scale(e1, cosl(a)), l3_scale(e2, sinl(a))), OFF[o])));
            LatLng ll = l3_ll(q); ev_ll("icosa-vertex", ll.lat, ll.lng, r, 0, 0);
        }
    }
}

static void pole_points(int quick) {
    static const double EPSV[] = {0, 1e-16, 2.3e-16, 1e-15, 1e-13, 1e-10, 1e-7, 1e-4, 2e-3, 2.1e-3, 1e-2};
    static const double LNGS[] = {0, 1.0, -2.0, M_PI, -M_PI, 2 * M_PI, -2 * M_PI, 3.0, -3.1, 4.5, -5.5, 0.5, 2.2};
    for (int r = 0; r <= 15; r++) {
        for (int sg = -1; sg <= 1; sg += 2) for (int e = 0; e < 11; e++) for (int k = 0; k < 13; k++) {
            if (quick && e && vt_randn(3)) continue;
            ev_ll("pole", sg * (M_PI_2 - EPSV[e]), LNGS[k], r, 0, 0);
        }
        /* antimeridian and the +-2pi rim */
        for (int k = 0; k < (quick ? 12 : 60); k++) {
            double lat = (vt_rand01() - 0.5) * M_PI; double e = EPSV[vt_randn(11)];
            ev_ll("antimeridian", lat, M_PI - e, r, 0, 0); ev_ll("antimeridian", lat, -M_PI + e, r, 0, 0);
            ev_ll("antimeridian", lat, nextafter(M_PI, 4.0), r, 0, 0); ev_ll("antimeridian", lat, -nextafter(M_PI, 4.0), r, 0, 0);
            ev_ll("rim", lat, 2 * M_PI - e, r, 0, 0); ev_ll("rim", lat, -2 * M_PI + e, r, 0, 0);
            ev_ll("equator", e * (k % 2 ? 1 : -1), (vt_rand01() - 0.5) * 4 * M_PI, r, 0, 0);
        }
    }
}

static void random_points(int n) {
    for (int i = 0; i < n; i++) {
        double z = 2 * vt_rand01() - 1, lng = (vt_rand01() - 0.5) * 4 * M_PI;
        ev_ll("uniform", asin(z), lng, (int)vt_randn(16), 0, 0);
    }
}

static double weird_double(void) {
    static const double W[] = {0.0, -0.0, DBL_MIN, -DBL_MIN, 4.9e-324, 1e-300, 1.0, -1.0, M_PI_2, -M_PI_2, 1.5707963267948968, -1.5707963267948968, 2.0, -2.0, M_PI, -M_PI,
                               7.0, -7.0, 100.0, -100.0, 1e6, -1e6, 1e15, 1e16, -1e16, 1e100, -1e100, 1e300, -1e300, DBL_MAX, -DBL_MAX, 6.283185307179587, -6.283185307179587, 12.566370614359172};
    uint64_t k = vt_randn(40);
    if (k < 34) return W[k];
    if (k < 37) return (vt_rand01() - 0.5) * 1000;
    union { uint64_t u; double d; } x; do { x.u = vt_rand(); } while (!isfinite(x.d)); return x.d;
}
static void domain_points(int n) {
    static const int BADRES[] = {-1, 16, 17, -2, 100, -100, INT_MAX, INT_MIN, 255, 256, 65536, -65536, 1 << 30};
    for (int i = 0; i < n; i++) ev_ll("finite", weird_double(), weird_double(), (int)vt_randn(16), 0, 0);
    static const double NF[] = {NAN, INFINITY, -INFINITY};
    for (int r = 0; r <= 15; r++) for (int a = 0; a < 3; a++) { ev_ll("nonfinite", NF[a], 0.5, r, 0, 0); ev_ll("nonfinite", 0.5, NF[a], r, 0, 0); ev_ll("nonfinite", NF[a], NF[(a + 1) % 3], r, 0, 0); ev_ll("nonfinite", NF[a], weird_double(), r, 0, 0); }
    for (int k = 0; k < 13; k++) { ev_ll("badres", 0.3, 0.4, BADRES[k], 0, 0); ev_ll("badres", weird_double(), weird_double(), BADRES[k], 0, 0); ev_ll("badres", NAN, 0.4, BADRES[k], 0, 0); ev_ll("badres", 0.1, INFINITY, BADRES[k], 0, 0); }
}

/* ---- binding of the rounding model H3Hex2d to the internal function it transcribes.  The symbol is taken weakly so that a
 * refactoring that renames or inlines it only disables this (model-conformance) part. */
typedef struct { double x, y; } VVec2d; typedef struct { int i, j, k; } VCoordIJK;
extern void _hex2dToCoordIJK(const VVec2d *v, VCoordIJK *h) __attribute__((weak));
static void ev_hex2d(int D, long p, long q, int sx, int sy) {
    VVec2d v = {sx * ((double)p / D - (double)q / (2.0 * D)), sy * ((double)q / D) * 0.8660254037844386467637231707529361834714};
    VCoordIJK h = {0, 0, 0}; _hex2dToCoordIJK(&v, &h);
    fprintf(vt_out, "{\"e\":\"hex2d\",\"D\":%d,\"p\":%ld,\"q\":%ld,\"sx\":%d,\"sy\":%d,\"t\":[%d,%d,%d]}\n", D, p, q, sx, sy, h.i, h.j, h.k);
}
static int hex2d_main(int quick, const char *path) {
    vt_open(path);
    if (!_hex2dToCoordIJK) { fputs("{\"e\":\"hex2dAbsent\"}\n", vt_out); vt_close(); return 0; }
    int D = 60, K = quick ? 2 : 4;
    for (long p = 0; p <= K * D; p++) for (long q = 0; q <= K * D && q <= 2 * p; q++) {
        if (quick && (p * 7 + q * 3) % 4) continue;
        for (int sx = 1; sx >= -1; sx -= 2) for (int sy = 1; sy >= -1; sy -= 2) { if (sx < 0 && 2 * p == q) continue; if (sy < 0 && q == 0) continue; ev_hex2d(D, p, q, sx, sy); }
    }
    for (int n = 0; n < (quick ? 20000 : 400000); n++) {                                  /* far from the origin, finer lattices */
        static const int DS[] = {6, 12, 30, 60, 84, 120, 210}; int d = DS[vt_randn(7)];
        long mag = (long)1 << (2 + vt_randn(18)); long p = (long)vt_randn(mag * d), q = (long)vt_randn(2 * p + 1);
        int sx = vt_randn(2) ? 1 : -1, sy = vt_randn(2) ? 1 : -1; if (2 * p == q) sx = 1; if (q == 0) sy = 1;
        ev_hex2d(d, p, q, sx, sy);
    }
    vt_close(); return 0;
}

/* concurrent mode: 8 threads index their own uniform points at the same time (the cell of a point is a function of the point whatever
 * other threads are asking); per-thread event streams, same trace spec */
#include <pthread.h>
typedef struct { uint64_t seed; int n; char *buf; size_t len; } LlTh;
static pthread_barrier_t g_bar;
static void *ll_worker(void *arg) {
    LlTh *t = arg; vt_seed(t->seed); vt_out = open_memstream(&t->buf, &t->len);
    pthread_barrier_wait(&g_bar);
    random_points(t->n);
    fclose(vt_out); vt_out = NULL; return NULL;
}
static int ll_threads(int quick, uint64_t seed, const char *path) {
    enum { T = 8 }; LlTh th[T]; pthread_t id[T]; memset(th, 0, sizeof th);
    for (int t = 0; t < T; t++) { th[t].seed = seed * 131 + 2002 + t; th[t].n = quick ? 1500 : 25000; }
    pthread_barrier_init(&g_bar, NULL, T);
    for (int t = 0; t < T; t++) pthread_create(&id[t], NULL, ll_worker, &th[t]);
    for (int t = 0; t < T; t++) pthread_join(id[t], NULL);
    vt_open(path);
    for (int t = 0; t < T; t++) { fwrite(th[t].buf, 1, th[t].len, vt_out); (free)(th[t].buf); }
    vt_close(); return 0;
}
int main(int argc, char **argv) {
    if (argc < 4) return 2;
    if (argc >= 5 && !strcmp(argv[1], "threads")) return ll_threads(argv[2][0] == 'q', strtoull(argv[3], 0, 10), argv[4]);
    if (!strcmp(argv[1], "hex2d")) { vt_seed(strtoull(argv[3], 0, 10) + 22); return hex2d_main(argv[2][0] == 'q', argv[4]); }
    int quick = argv[2][0] == 'q'; vt_seed(strtoull(argv[3], 0, 10) + 2);
    int measure = !strcmp(argv[1], "measure");
    vt_open(measure ? "/dev/null" : argv[4]);
    for (int res = 0; res <= 15; res++) {
        CellVec cv = {0};
        if (res <= 1 || (!quick && res == 2)) cv_all_cells(&cv, res);
        else { cv_pentagon_strata(&cv, res, quick ? 1 : 2); cv_seam_cells(&cv, res, quick ? 2 : 8); cv_random_cells(&cv, res, quick ? 12 : 60); }
        /* cells containing the poles and cells on the antimeridian */
        for (int s = -1; s <= 1; s += 2) { LatLng pl = {s * M_PI_2, 0}; H3Index h; if (!latLngToCell(&pl, res, &h)) { cv_push(&cv, h); if (!quick || res % 3 == 0) { H3Index d[7] = {0}; gridDisk(h, 1, d); for (int i = 0; i < 7; i++) if (d[i]) cv_push(&cv, d[i]); } } }
        for (int k = 0; k < (quick ? 3 : 20); k++) { LatLng am = {(vt_rand01() - 0.5) * 3, M_PI}; H3Index h; if (!latLngToCell(&am, res, &h)) cv_push(&cv, h); }
        for (int64_t i = 0; i < cv.n; i++) { if (res <= 1 && quick && i % (res ? 3 : 1) && !isPentagon(cv.v[i])) continue; if (res == 2 && i % 3 && !isPentagon(cv.v[i])) continue; cell_points(cv.v[i], quick); }
        cv_free(&cv);
    }
    icosa_points(quick); icosa_band(quick); face_band(quick); pole_points(quick); random_points(quick ? 8000 : 100000); domain_points(quick ? 1500 : 10000);
    fprintf(stderr, "events=%ld worst_dev=%.3Lg rad worst dev/tol=%.4f\n", n_events, worst_dev, worst_ratio_ppm / 1e6);
    vt_close(); return 0;
}
