/* C07 / C15 driver: polygonToCells (legacy) and polygonToCellsExperimental (4 containment modes) on generated well-formed polygons.
 *   drv_poly run <tier> <seed> <out.ndjson>
 * One "polyfill" event per (polygon, resolution): the outputs of all five fills, the five size bounds, and for every candidate
 * cell near the polygon the three-valued numeric observations of harness/vpoly.h (centre inside, all vertices inside, wholly
 * interior, shares a point).  The candidate set is built independently of the fill algorithms (raster of latLngToCell over the
 * polygon and along its edges + 1-disks) and then united with every output.  "polycap" / "polyflags" events: capacity and flag
 * errors.  Nothing here judges a result; Trace_Poly does. */
#include "vtrace.h"
#include "vpoly.h"
#include "vgeom.h"

/* ------------------------------------------------------------------ cell hash set */
typedef struct { uint64_t *t; size_t cap, n; } HSet;
static void hs_init(HSet *s, size_t cap) { s->cap = 1; while (s->cap < cap * 2) s->cap <<= 1; s->t = calloc(s->cap, 8); s->n = 0; }
static void hs_grow(HSet *s);
static int hs_add(HSet *s, uint64_t h) {
    if (!h) return 0;
    if (s->n * 2 >= s->cap) hs_grow(s);
    size_t i = (size_t)((h * 0x9E3779B97F4A7C15ULL) >> 20) & (s->cap - 1);
    while (s->t[i]) { if (s->t[i] == h) return 0; i = (i + 1) & (s->cap - 1); }
    s->t[i] = h; s->n++; return 1;
}
static void hs_grow(HSet *s) { HSet o = *s; s->cap <<= 1; s->t = calloc(s->cap, 8); s->n = 0; for (size_t i = 0; i < o.cap; i++) if (o.t[i]) hs_add(s, o.t[i]); free(o.t); }
static void hs_free(HSet *s) { free(s->t); }
static void hs_add_disk1(HSet *s, uint64_t h) { H3Index d[7] = {0}; if (gridDisk(h, 1, d)) return; for (int i = 0; i < 7; i++) hs_add(s, d[i]); }

/* ------------------------------------------------------------------ polygon generator */
#define MAXV 64
typedef struct { LatLng outer[MAXV]; LatLng hole[3][MAXV]; GeoLoop holes[3]; GeoPolygon g; const char *kind; int res; } Poly;
static double wrap_lng(double x) { while (x > M_PI) x -= 2 * M_PI; while (x < -M_PI) x += 2 * M_PI; return x; }
static double edge_rads(int res) { double km; getHexagonEdgeLengthAvgKm(res, &km); return km / 6371.007180918475; }
/* a loop around (lat0,lng0): vertex k at angle th_k, radius rad_k (radians of arc, isotropic: longitudes scaled by 1/cos lat) */
static double g_latmax = 1.48;     /* polygons keep away from the poles; the polar placement lifts this to within 1e-3 rad */
static int make_loop(LatLng *v, int n, double lat0, double lng0, double r, double rmin, double squash, double rot, int reverse) {
    double th[MAXV];
    for (int k = 0; k < n; k++) th[k] = (k + 0.8 * (vt_rand01() - 0.5)) * 2 * M_PI / n;
    for (int k = 0; k < n; k++) {
        double rr = r * (rmin + (1 - rmin) * vt_rand01()); double a = th[k];
        double px = rr * cos(a), py = rr * sin(a) * squash;                    /* squash < 1: ellipse / needle */
        double qx = px * cos(rot) - py * sin(rot), qy = px * sin(rot) + py * cos(rot);
        int idx = reverse ? n - 1 - k : k;
        v[idx].lat = lat0 + qy; v[idx].lng = wrap_lng(lng0 + qx / cos(lat0));
        if (fabs(v[idx].lat) > g_latmax) return 1;
    }
    return 0;
}
static int pick_res_for(double r, double target) {   /* resolution at which a disc of radius r holds about `target` cells */
    int best = 0; double bd = 1e300;
    for (int res = 0; res <= 15; res++) { double e = edge_rads(res); double n = M_PI * r * r / (2.598 * e * e); double d = fabs(log((n + 1e-9) / target)); if (d < bd) { bd = d; best = res; } }
    return best;
}
static H3Index PENT0[12];
static double g_polar_d = 0;       /* > 0: the current polygon sits this far from a pole and must stay smaller than that */
static void place(double *lat0, double *lng0, int i) {
    int w = i % 8; g_polar_d = 0; g_latmax = 1.48;
    if (w == 5) { /* next to a pole (not enclosing it): 0.002 .. 0.06 rad away */
        g_polar_d = exp(log(0.002) + vt_rand01() * (log(0.06) - log(0.002))); g_latmax = M_PI_2 - 2e-4;
        *lat0 = (vt_randn(2) ? 1 : -1) * (M_PI_2 - g_polar_d); *lng0 = (vt_rand01() - 0.5) * 2 * M_PI; return; }
    if (w == 0) { LatLng c; cellToLatLng(PENT0[(i / 8) % 12], &c); *lat0 = c.lat + 0.002 * (vt_rand01() - 0.5); *lng0 = c.lng + 0.002 * (vt_rand01() - 0.5); }
    else if (w == 1) { *lat0 = (vt_rand01() - 0.5) * 2.4; *lng0 = (vt_randn(2) ? M_PI : -M_PI) + 0.02 * (vt_rand01() - 0.5); *lng0 = wrap_lng(*lng0); }
    else if (w == 2) { *lat0 = (vt_randn(2) ? 1 : -1) * (1.15 + 0.2 * vt_rand01()); *lng0 = (vt_rand01() - 0.5) * 2 * M_PI; }            /* high latitude */
    else if (w == 3) { LatLng a, b; cellToLatLng(PENT0[(i / 8) % 12], &a); cellToLatLng(PENT0[(i / 8 + 1 + vt_randn(11)) % 12], &b); double t = vt_rand01();     /* somewhere between two icosahedron vertices */
                       V3 va = v3_of(&a), vb = v3_of(&b); V3 m = v3_lerp(va, vb, t); LatLng g = ll_of(m); *lat0 = g.lat; *lng0 = g.lng; if (fabs(*lat0) > 1.3) *lat0 *= 0.8; }
    else { *lat0 = asin(2 * vt_rand01() - 1) * 0.85; *lng0 = (vt_rand01() - 0.5) * 2 * M_PI; }
}
/* returns 0 on success */
static int g_force_kind = -1;
static int gen_poly(Poly *P, int i, int quick) {
    memset(P, 0, sizeof *P);
    double lat0, lng0; place(&lat0, &lng0, i);
    static const double TARGETS[] = {2, 8, 30, 30, 120, 120, 400, 1500};
    double target = TARGETS[vt_randn(quick ? 7 : 8)];
    double r = exp(log(2e-6) + vt_rand01() * (log(0.25) - log(2e-6)));
    if (g_polar_d > 0) r = g_polar_d * (0.05 + 0.4 * vt_rand01());           /* stays clear of the pole, less than 180 degrees wide */
    if (i % 8 == 1 && vt_randn(4)) lng0 = wrap_lng(M_PI + 0.6 * r * (vt_rand01() - 0.5) / cos(lat0));   /* the antimeridian runs through the middle part of the polygon whatever its size */
    int kind = g_force_kind >= 0 ? g_force_kind : (int)vt_randn(12); if (kind == 9) kind = 12; int nh = 0; int n = 4; int rev = (int)vt_randn(2);
    P->g.holes = P->holes;
    switch (kind) {
        case 0: case 1: P->kind = "convex"; n = 3 + (int)vt_randn(10); if (make_loop(P->outer, n, lat0, lng0, r, 0.85, 0.4 + 0.6 * vt_rand01(), vt_rand01() * 6.28, rev)) return 1; break;
        case 2: case 3: P->kind = "star"; n = 8 + (int)vt_randn(33); if (make_loop(P->outer, n, lat0, lng0, r, 0.3, 1, 0, rev)) return 1; break;
        case 4: { P->kind = "needle"; n = 4 + 2 * (int)vt_randn(3); int ax = (int)vt_randn(4);   /* a quarter each: along a parallel, along a meridian (bounding box as thin as the needle), two slanted */
                  if (make_loop(P->outer, n, lat0, lng0, r, 0.9, 0.002 + 0.05 * vt_rand01(), ax == 0 ? 0.0 : ax == 1 ? M_PI_2 : vt_rand01() * 6.28, rev)) return 1; target *= 8; break; }
        case 5: { P->kind = "tiny"; int res = (int)vt_randn(16); r = edge_rads(res) * (0.05 + 0.5 * vt_rand01()); n = 3 + (int)vt_randn(5); if (make_loop(P->outer, n, lat0, lng0, r, 0.6, 1, vt_rand01() * 6.28, rev)) return 1; P->res = res; break; }
        case 6: case 7: { P->kind = "holes"; n = 6 + (int)vt_randn(20); if (make_loop(P->outer, n, lat0, lng0, r, 0.65, 1, 0, rev)) return 1; nh = 1 + (int)vt_randn(3); double a0 = vt_rand01() * 6.28;
                  for (int h = 0; h < nh; h++) { double a = a0 + h * 2.094 + 0.3 * (vt_rand01() - 0.5), d = r * (nh == 1 ? 0.25 * vt_rand01() : 0.3); int hn = 3 + (int)vt_randn(8);
                      if (make_loop(P->hole[h], hn, lat0 + d * sin(a), lng0 + d * cos(a) / cos(lat0), r * (0.03 + 0.17 * vt_rand01()), 0.7, 1, vt_rand01() * 6.28, (int)vt_randn(2))) return 1; P->holes[h].numVerts = hn; P->holes[h].verts = P->hole[h]; }
                  break; }
        case 8: { /* a hole smaller than a cell sitting on a cell centre, or a hole swallowing whole cells */
                  P->kind = vt_randn(2) ? "hole-on-centre" : "hole-with-cells"; int res = 1 + (int)vt_randn(15); double e = edge_rads(res); LatLng g0 = {lat0, lng0}; H3Index c; if (latLngToCell(&g0, res, &c)) return 1; LatLng cc; cellToLatLng(c, &cc);
                  r = e * (4 + 4 * vt_rand01()); n = 5 + (int)vt_randn(10); if (make_loop(P->outer, n, cc.lat, cc.lng, r, 0.8, 1, 0, rev)) return 1;
                  double hr = P->kind[5] == 'o' ? e * (0.05 + 0.3 * vt_rand01()) : e * (2 + vt_rand01()); int hn = 3 + (int)vt_randn(6);
                  if (make_loop(P->hole[0], hn, cc.lat, cc.lng, hr, 0.8, 1, vt_rand01() * 6.28, (int)vt_randn(2))) return 1; P->holes[0].numVerts = hn; P->holes[0].verts = P->hole[0]; nh = 1; P->res = res; break; }
        case 10: { /* a fat polygon with a thin wedge cut in from its rim towards (or past) its centre: a concave feature narrower than the cells that get compacted */
                  P->kind = "notch"; n = 6 + (int)vt_randn(8); double al = vt_rand01() * 6.28, dl = 0.001 + 0.03 * vt_rand01(); int m = 0;
                  for (int k = 0; k < n; k++) { double a = al + 0.2 + (k + 0.5 * vt_rand01()) * (6.28 - 0.4) / n; double rr = r * (0.85 + 0.15 * vt_rand01());
                      P->outer[m].lat = lat0 + rr * sin(a); P->outer[m].lng = wrap_lng(lng0 + rr * cos(a) / cos(lat0)); m++; }
                  double tip = r * (0.7 * vt_rand01() - 0.5);      /* negative: the wedge reaches past the centre */
                  double w3[3][2] = {{al - dl, r * 0.8}, {al, tip}, {al + dl, r * 0.8}};
                  /* the wedge closes the loop: ... last rim vertex -> (al - dl) -> tip -> (al + dl) -> first rim vertex */
                  for (int q = 0; q < 3; q++) { P->outer[m].lat = lat0 + w3[q][1] * sin(w3[q][0]); P->outer[m].lng = wrap_lng(lng0 + w3[q][1] * cos(w3[q][0]) / cos(lat0)); m++; }
                  n = m; for (int k = 0; k < n; k++) if (fabs(P->outer[k].lat) > g_latmax) return 1;
                  if (rev) for (int k = 0; k < n / 2; k++) { LatLng t = P->outer[k]; P->outer[k] = P->outer[n - 1 - k]; P->outer[n - 1 - k] = t; }
                  if (target < 120) target = 120; break; }
        case 11: { /* a fat polygon with 1..3 parallel sliver holes (slanted: disjoint holes whose bounding boxes overlap) */
                  P->kind = "sliver-hole"; n = 5 + (int)vt_randn(10); if (make_loop(P->outer, n, lat0, lng0, r, 0.85, 1, 0, rev)) return 1;
                  nh = 1 + (int)vt_randn(3); double rot = vt_rand01() * 6.28, hr = r * (nh == 1 ? 0.3 + 0.3 * vt_rand01() : 0.25 + 0.2 * vt_rand01()), sq = nh == 1 ? 0.002 + 0.04 * vt_rand01() : vt_randn(2) ? 0.01 + 0.1 * vt_rand01() : 0.1 + 0.2 * vt_rand01();   /* thin: centres only; fat: whole cells inside a band */
                  double step = hr * (2.6 * sq + 0.05 + 0.1 * vt_rand01());      /* perpendicular spacing: more than the width of a sliver */
                  for (int h = 0; h < nh; h++) { double off = (h - (nh - 1) / 2.0) * step; double cx = -sin(rot) * off, cy = cos(rot) * off; int hn = 4 + 2 * (int)vt_randn(3);
                      if (make_loop(P->hole[h], hn, lat0 + cy, lng0 + cx / cos(lat0), hr, 0.9, sq, rot, (int)vt_randn(2))) return 1; P->holes[h].numVerts = hn; P->holes[h].verts = P->hole[h]; }
                  if (target < 120) target = 120; if (nh > 1 && target < 400) target = 400; break; }
        case 13: { /* a fat polygon whose hole is a thick C: the disc inside the C belongs to the polygon and is joined to the rest only through a slit
                      narrower than a cell (a fill that spreads from the outline has to be seeded from the hole's outline too) */
                  P->kind = "pocket"; n = 6 + (int)vt_randn(8); if (make_loop(P->outer, n, lat0, lng0, r, 0.9, 1, 0, rev)) return 1;
                  P->res = pick_res_for(r * 0.7, 300 + 300 * vt_rand01()); double e = edge_rads(P->res); double R1 = r * (0.2 + 0.08 * vt_rand01()), R2 = r * (0.45 + 0.1 * vt_rand01());
                  double slit = e * (0.02 + 0.3 * vt_rand01()); double eps = slit / 2 / R1; double a0 = vt_rand01() * 6.28; int m = 14, hn = 0; int hrev = (int)vt_randn(2);
                  for (int k = 0; k < m; k++) { double a = a0 + eps + (6.2831853 - 2 * eps) * k / (m - 1); P->hole[0][hn].lat = lat0 + R2 * sin(a); P->hole[0][hn].lng = wrap_lng(lng0 + R2 * cos(a) / cos(lat0)); hn++; }
                  for (int k = m - 1; k >= 0; k--) { double a = a0 + eps + (6.2831853 - 2 * eps) * k / (m - 1); P->hole[0][hn].lat = lat0 + R1 * sin(a); P->hole[0][hn].lng = wrap_lng(lng0 + R1 * cos(a) / cos(lat0)); hn++; }
                  if (hrev) for (int k = 0; k < hn / 2; k++) { LatLng t = P->hole[0][k]; P->hole[0][k] = P->hole[0][hn - 1 - k]; P->hole[0][hn - 1 - k] = t; }
                  for (int k = 0; k < hn; k++) if (fabs(P->hole[0][k].lat) > g_latmax) return 1;
                  P->holes[0].numVerts = hn; P->holes[0].verts = P->hole[0]; nh = 1; break; }
        case 14: { /* a frame: the hole is the outer loop shrunk about its centre, leaving a wall 0.1 .. 1.5 cell edges wide; the cells of the wall are
                      reached from the traced edges only, and every edge (of the outer loop and of the hole, in either direction) has to be traced */
                  P->kind = "frame"; n = 4 + (int)vt_randn(8); if (make_loop(P->outer, n, lat0, lng0, r, 0.9, 0.5 + 0.5 * vt_rand01(), vt_rand01() * 6.28, rev)) return 1;
                  P->res = pick_res_for(r * 0.7, target < 120 ? 120 : target); double e = edge_rads(P->res); double f = 1 - e * (0.1 + 1.4 * vt_rand01()) / r; if (f < 0.5) return 1;
                  int hrev = (int)vt_randn(2);
                  for (int k = 0; k < n; k++) { int idx = hrev ? n - 1 - k : k; double d = wrap_lng(P->outer[idx].lng - lng0); P->hole[0][k].lat = lat0 + f * (P->outer[idx].lat - lat0); P->hole[0][k].lng = wrap_lng(lng0 + f * d); }
                  P->holes[0].numVerts = n; P->holes[0].verts = P->hole[0]; nh = 1; break; }
        default: { /* the boundary of a cell (or of a coarser ancestor) as the polygon: edges run exactly along cell edges */
                  P->kind = "cellshape"; int res = (int)vt_randn(14); LatLng g0 = {lat0, lng0}; H3Index c; if (latLngToCell(&g0, res, &c)) return 1; CellBoundary cb; if (cellToBoundary(c, &cb)) return 1;
                  n = cb.numVerts; for (int k = 0; k < n; k++) { P->outer[k] = cb.verts[k]; if (fabs(cb.verts[k].lat) > 1.48) return 1; } P->res = res + (int)vt_randn(3); if (P->res > 15) P->res = 15; { PLoop t; ploop_from(P->outer, n, &t); int ok = t.closes; ploop_free(&t); if (!ok) return 1; } break; }
    }
    P->g.geoloop.numVerts = n; P->g.geoloop.verts = P->outer; P->g.numHoles = nh;
    if (kind != 5 && kind != 8 && kind != 9 && kind != 12 && kind != 13 && kind != 14) P->res = pick_res_for(kind == 4 ? r * 0.15 : r * 0.7, target);
    /* keep the width well below 180 degrees */
    PLoop t; ploop_from(P->outer, n, &t); int bad = !t.closes || (t.maxx - t.minx) > 2.4; ploop_free(&t);
    return bad;
}

/* ------------------------------------------------------------------ one event */
static long n_ev = 0, n_cand = 0, n_amb = 0;
static void big_or(int64_t v, H3Error rc) { if (rc) fputs("{\"s\":0,\"l\":[0,0,0,0,0]}", vt_out); else vt_big(v); }
static void fill_event(Poly *P, int maxcand) {
    int res = P->res; GeoPolygon *g = &P->g;
    H3Index *out[5] = {0}; int64_t mx[5] = {0}; H3Error rmx[5], rc[5]; int gok[5] = {1, 1, 1, 1, 1}; int64_t cnt[5] = {0};
    /* legacy */
    rmx[0] = maxPolygonToCellsSize(g, res, 0, &mx[0]);
    if (rmx[0] || mx[0] > 4000000) return;
    out[0] = gb_alloc(mx[0], 8, 0); rc[0] = polygonToCells(g, res, 0, out[0]); gok[0] = gb_ok(out[0]);
    for (int m = 0; m < 4; m++) {
        rmx[m + 1] = maxPolygonToCellsSizeExperimental(g, res, m, &mx[m + 1]);
        if (rmx[m + 1] || mx[m + 1] > 4000000) { for (int k = 0; k <= m; k++) gb_free(out[k]); return; }
        out[m + 1] = gb_alloc(mx[m + 1], 8, 0); rc[m + 1] = polygonToCellsExperimental(g, res, m, mx[m + 1], out[m + 1]); gok[m + 1] = gb_ok(out[m + 1]);
    }
    for (int k = 0; k < 5; k++) for (int64_t i = 0; i < mx[k]; i++) if (out[k][i]) cnt[k]++;
    int64_t tot = 0; for (int k = 0; k < 5; k++) tot += cnt[k];
    if (tot > 5L * maxcand) { for (int k = 0; k < 5; k++) gb_free(out[k]); return; }
    /* candidates, independent of the fills: raster + along the edges */
    PPoly PP; ppoly_from(g, &PP); HSet cs; hs_init(&cs, 4096);
    double e = edge_rads(res); int too = 0;
    { PLoop *O = &PP.l[0]; double step = 0.55 * e; double y0 = O->miny - 1.2 * e, y1 = O->maxy + 1.2 * e; long ny = (long)((y1 - y0) / step) + 1; if (ny > 3000) { step = (y1 - y0) / 3000; ny = 3000; }
      for (long iy = 0; iy <= ny; iy++) { double y = y0 + iy * step; if (fabs(y) > 1.5704) continue; double sx = step / cos(y); double x0 = O->minx - 1.2 * e / cos(y), x1 = O->maxx + 1.2 * e / cos(y); long nx = (long)((x1 - x0) / sx) + 1; if (nx > 6000) { sx = (x1 - x0) / 6000; nx = 6000; }
          for (long ix = 0; ix <= nx; ix++) { P2 p = {x0 + ix * sx, y}; int in = pt_in_loop(O, p, 0); if (!in && ploop_dist(O, p) > 1.5 * e / cos(y)) continue; LatLng q = {y, wrap_lng((double)p.x)}; H3Index h; if (!latLngToCell(&q, res, &h)) hs_add(&cs, h); if ((long)cs.n > 3L * maxcand) { too = 1; break; } } if (too) break; } }
    for (int l = 0; l < PP.nl && !too; l++) { PLoop *L = &PP.l[l]; for (int i = 0; i < L->n; i++) { P2 a = L->v[i], b = L->v[(i + 1) % L->n]; double len = hypot((double)(b.x - a.x) * cos((double)a.y), (double)(b.y - a.y)); long ns = (long)(len / (0.3 * e)) + 1; if (ns > 20000) ns = 20000;
          for (long s = 0; s <= ns; s++) { long double t = (long double)s / ns; LatLng q = {(double)(a.y + t * (b.y - a.y)), wrap_lng((double)(a.x + t * (b.x - a.x)))}; H3Index h; if (!latLngToCell(&q, res, &h)) hs_add(&cs, h); } } }
    if (too || (long)cs.n > 3L * maxcand) { hs_free(&cs); ppoly_free(&PP); for (int k = 0; k < 5; k++) gb_free(out[k]); return; }
    { HSet c2; hs_init(&c2, cs.n * 4 + 64); for (size_t i = 0; i < cs.cap; i++) if (cs.t[i]) hs_add_disk1(&c2, cs.t[i]);
      for (int k = 0; k < 5; k++) for (int64_t i = 0; i < mx[k]; i++) if (out[k][i]) { if (isValidCell(out[k][i])) hs_add_disk1(&c2, out[k][i]); else hs_add(&c2, out[k][i]); }
      hs_free(&cs); cs = c2; }
    /* the event */
    fprintf(vt_out, "{\"e\":\"polyfill\",\"kind\":\"%s\",\"res\":%d,\"nv\":%d,\"nh\":%d,\"f\":[", P->kind, res, g->geoloop.numVerts, g->numHoles);
    for (int k = 0; k < 5; k++) {
        fprintf(vt_out, "%s{\"rmax\":%u,\"max\":", k ? "," : "", rmx[k]); big_or(mx[k], rmx[k]); fprintf(vt_out, ",\"rc\":%u,\"g\":%d,\"out\":", rc[k], gok[k]); vt_words_nz(out[k], mx[k]); fputc('}', vt_out);
    }
    HSet leg; hs_init(&leg, (size_t)cnt[0] + 8); for (int64_t i = 0; i < mx[0]; i++) if (out[0][i]) hs_add(&leg, out[0][i]);
    long legacyExtra = 0;
    fputs("],\"cand\":[", vt_out); int first = 1;
    for (size_t i = 0; i < cs.cap; i++) if (cs.t[i]) {
        H3Index h = cs.t[i]; CellObs o = {2, 2, 2, 2};
        if (isValidCell(h)) { CellShape S; if (!cellshape_from(h, &PP.l[0], &S)) { S.centre = p2_align(&PP.l[0], S.centre); o = cell_vs_poly(&PP, &S); cellshape_free(&S); } }
        fprintf(vt_out, "%s{\"h\":", first ? "" : ","); first = 0; vt_word(h); fprintf(vt_out, ",\"o\":[%d,%d,%d,%d]}", o.cin, o.vin, o.wi, o.sh);
        n_cand++; if (o.cin == 2) n_amb++;
        if (o.cin == 0) { size_t q = (size_t)((h * 0x9E3779B97F4A7C15ULL) >> 20) & (leg.cap - 1); while (leg.t[q]) { if (leg.t[q] == h) { legacyExtra++; break; } q = (q + 1) & (leg.cap - 1); } }
    }
    /* observation used to identify the known finding of the legacy fill: does it return any cell whose centre is clearly outside? */
    fprintf(vt_out, "],\"legacyExtra\":%ld}\n", legacyExtra); hs_free(&leg); n_ev++;
    if (getenv("VERIF_DUMP_POLY") && cnt[0] < cnt[1]) { fprintf(stderr, "POLY res=%d n=%d:", res, g->geoloop.numVerts); for (int i = 0; i < g->geoloop.numVerts; i++) fprintf(stderr, " {%.17g, %.17g},", g->geoloop.verts[i].lat, g->geoloop.verts[i].lng); fputc('\n', stderr); }
    /* capacity below the result: E_MEMORY_BOUNDS without overrun (C15) */
    for (int m = 0; m < 4; m++) if (!rc[m + 1] && cnt[m + 1] > 0) {
        int64_t caps[5] = {cnt[m + 1] - 1, 0, cnt[m + 1], 0, 0}; int ncap = cnt[m + 1] > 1 ? 3 : 2; if (cnt[m + 1] == 1) { caps[1] = 1; }
        if (cnt[m + 1] > 3) { caps[3] = 1 + (int64_t)vt_randn((uint64_t)cnt[m + 1] - 2); caps[4] = 1 + (int64_t)vt_randn((uint64_t)cnt[m + 1] - 2); ncap = 5; }   /* run out in the middle */
        for (int c = 0; c < ncap; c++) { int64_t cap = caps[c]; if (cnt[m + 1] == 1 && c == 0) cap = 0; H3Index *o2 = gb_alloc(cap, 8, 0); H3Error r2 = polygonToCellsExperimental(g, res, m, cap, o2); int64_t w = 0; for (int64_t i = 0; i < cap; i++) if (o2[i]) w++;
            fprintf(vt_out, "{\"e\":\"polycap\",\"mode\":%d,\"count\":", m); vt_big(cnt[m + 1]); fputs(",\"cap\":", vt_out); vt_big(cap); fprintf(vt_out, ",\"rc\":%u,\"g\":%d,\"w\":", r2, gb_ok(o2)); vt_big(w); fputs("}\n", vt_out); gb_free(o2); }
    }
    /* invalid flags (C15): unknown bits, mode >= 4 */
    if (n_ev % 5 == 0) { static const uint32_t BAD[] = {4, 5, 7, 8, 16, 0x100, 0x80000000u, 0xffffffffu, 12}; for (int b = 0; b < 9; b++) { int64_t sz = -7; H3Index o2[4] = {0}; H3Error r1 = maxPolygonToCellsSizeExperimental(g, res, BAD[b], &sz); H3Error r2 = polygonToCellsExperimental(g, res, BAD[b], 4, o2);
        fprintf(vt_out, "{\"e\":\"polyflags\",\"bad\":1,\"rmax\":%u,\"rc\":%u,\"w\":%d}\n", r1, r2, (o2[0] || o2[1] || o2[2] || o2[3]) ? 1 : 0); } }
    hs_free(&cs); ppoly_free(&PP); for (int k = 0; k < 5; k++) gb_free(out[k]);
}

/* ---- binding of the bounding-box model H3BBox to the internal functions it transcribes (weak symbols: a refactoring that
 * renames them only disables this model-conformance part).  Boxes on an integer longitude grid (units pi/H); the first box has
 * even, the second odd longitudes so that no two edges coincide and rounding cannot matter. */
typedef struct { double north, south, east, west; } VBBox;
extern bool bboxOverlapsBBox(const VBBox *a, const VBBox *b) __attribute__((weak));
extern bool bboxContainsBBox(const VBBox *a, const VBBox *b) __attribute__((weak));
extern bool bboxContains(const VBBox *bbox, const LatLng *point) __attribute__((weak));
static int bbox_main(int quick, const char *path) {
    vt_open(path);
    if (!bboxOverlapsBBox || !bboxContainsBBox || !bboxContains) { fputs("{\"e\":\"bboxAbsent\"}\n", vt_out); vt_close(); return 0; }
    int H = 12; int n = quick ? 12000 : 200000;
    for (int i = 0; i < n; i++) {
        int v[8];
        for (int k = 0; k < 2; k++) {           /* k = 0: even longitudes, k = 1: odd; width below half the globe; either may wrap */
            int w = (int)vt_randn(H - 1) * 2 - (H - 2) + k; if (w > H - 1) w = H - 1; int wd = (int)vt_randn(H / 2) * 2; int e = w + wd; if (e > H - 1) e -= 2 * H;
            if (e < 1 - H) e = 1 - H + ((e + k) & 1);
            int s = (int)vt_randn(7) - 3, nn = s + (int)vt_randn(4);
            v[4 * k] = nn; v[4 * k + 1] = s; v[4 * k + 2] = e; v[4 * k + 3] = w;
        }
        VBBox a = {v[0] * 0.25, v[1] * 0.25, v[2] * M_PI / H, v[3] * M_PI / H}, b = {v[4] * 0.25, v[5] * 0.25, v[6] * M_PI / H, v[7] * M_PI / H};
        int plat = (int)vt_randn(9) - 4, plng = (int)vt_randn(2 * H + 1) - H; if (((plng - v[3]) & 1) == 0) plng += plng < H ? 1 : -1;     /* a point off a's edges */
        LatLng p = {plat * 0.25 + 0.01, plng * M_PI / H};
        fprintf(vt_out, "{\"e\":\"bbox\",\"H\":%d,\"a\":{\"n\":%d,\"s\":%d,\"e\":%d,\"w\":%d},\"b\":{\"n\":%d,\"s\":%d,\"e\":%d,\"w\":%d},\"ov\":%d,\"ovr\":%d,\"ct\":%d,\"plat\":%d,\"plng\":%d,\"pin\":%d}\n",
                H, v[0], v[1], v[2], v[3], v[4], v[5], v[6], v[7], bboxOverlapsBBox(&a, &b) ? 1 : 0, bboxOverlapsBBox(&b, &a) ? 1 : 0, bboxContainsBBox(&a, &b) ? 1 : 0, plat, plng, bboxContains(&a, &p) ? 1 : 0);
    }
    vt_close(); return 0;
}

/* A small polygon inside the descendant of a coarse cell that lies farthest from the coarse cell's centre: the hierarchical fill
 * reaches it only if the child-covering bounding boxes of all its ancestors cover it (the Covering guarantee of H3PolyIter). */
/* a thin triangle that enters cell c through boundary segment k only: apex a little inside across the middle of the segment, base outside */
static int gen_probe_poly(Poly *P, H3Index c, int k) {
    memset(P, 0, sizeof *P); CellBoundary cb; LatLng ctr; if (cellToBoundary(c, &cb) || cellToLatLng(c, &ctr) || k >= cb.numVerts) return 1;
    V3 a = v3_of(&cb.verts[k]), b = v3_of(&cb.verts[(k + 1) % cb.numVerts]), o = v3_of(&ctr); V3 mid = v3_lerp(a, b, 0.35 + 0.3 * vt_rand01());
    V3 in = v3_lerp(mid, o, 0.08 + 0.1 * vt_rand01()); V3 out = v3_lerp(mid, o, -(0.3 + 0.3 * vt_rand01()));
    V3 q1 = v3_lerp(out, v3_lerp(a, b, 0.2), 0.15), q2 = v3_lerp(out, v3_lerp(a, b, 0.8), 0.15);
    LatLng g0 = ll_of(in), g1 = ll_of(q1), g2 = ll_of(q2);
    if (fabs(g0.lat) > 1.48 || fabs(g1.lat) > 1.48 || fabs(g2.lat) > 1.48) return 1;
    int rev = (int)vt_randn(2); P->outer[0] = g0; P->outer[1] = rev ? g2 : g1; P->outer[2] = rev ? g1 : g2;
    P->g.geoloop.numVerts = 3; P->g.geoloop.verts = P->outer; P->g.numHoles = 0; P->g.holes = P->holes; P->kind = "segment-probe"; P->res = getResolution(c);
    PLoop t; ploop_from(P->outer, 3, &t); int bad = !t.closes || (t.maxx - t.minx) > 2.4; ploop_free(&t); return bad;
}

static int gen_corner_poly(Poly *P, int ares, int tres, int mode) {
    memset(P, 0, sizeof *P); H3Index c = 0;
    if (mode == 0) { int f = (int)vt_randn(20); LatLng fc = {VERIF_FACE_CENTER[f][0] + 0.02 * (vt_rand01() - 0.5), VERIF_FACE_CENTER[f][1] + 0.02 * (vt_rand01() - 0.5)}; latLngToCell(&fc, ares, &c); }   /* the largest cells of a resolution sit at the face centres */
    else if (mode == 1) { H3Index p[12]; getPentagons(ares, p); H3Index d[7] = {0}; gridDisk(p[vt_randn(12)], 1, d); c = d[vt_randn(7)]; if (!c) c = d[0]; }            /* the smallest round the icosahedron vertices */
    else c = vt_random_cell(ares);
    if (!c) return 1;
    LatLng cc; if (cellToLatLng(c, &cc) || fabs(cc.lat) > 1.3) return 1;
    /* walk down: at each level take the child farthest from the coarse centre (ties broken at random by a small jitter) */
    H3Index cur = c; V3 c3 = v3_of(&cc);
    for (int r = ares + 1; r <= tres; r++) { H3Index ch[7] = {0}; if (cellToChildren(cur, r, ch)) return 1; double best = -1; H3Index bi = 0;
        for (int i = 0; i < 7; i++) if (ch[i]) { LatLng g; cellToLatLng(ch[i], &g); double a = v3_angle(c3, v3_of(&g)) * (1 + 0.05 * vt_rand01()); if (a > best) { best = a; bi = ch[i]; } } cur = bi; }
    LatLng dc; cellToLatLng(cur, &dc); double e = edge_rads(tres);
    int n = 3 + (int)vt_randn(3); if (make_loop(P->outer, n, dc.lat, dc.lng, e * (0.15 + 0.25 * vt_rand01()), 0.7, 1, vt_rand01() * 6.28, (int)vt_randn(2))) return 1;
    P->g.geoloop.numVerts = n; P->g.geoloop.verts = P->outer; P->g.numHoles = 0; P->g.holes = P->holes; P->kind = "corner-descendant"; P->res = tres; return 0;
}

int main(int argc, char **argv) {
    if (argc >= 5 && !strcmp(argv[1], "bbox")) { vt_seed(strtoull(argv[3], 0, 10) + 77); return bbox_main(argv[2][0] == 'q', argv[4]); }
    if (argc >= 5 && !strcmp(argv[1], "needles")) {       /* needle-thin polygons only (the regime of the legacy fill's known finding) */
        int quick = argv[2][0] == 'q'; vt_seed(strtoull(argv[3], 0, 10) + 707); vt_open(argv[4]); getPentagons(0, PENT0); for (int i = 0; i < (quick ? 120 : 1200); i++) { Poly P; g_force_kind = i % 3 == 0 ? 4 : 9 + i % 3; if (gen_poly(&P, quick ? 8 * i + 1 : i, 1)) continue; fill_event(&P, quick ? 500 : 2000); }   /* quick: all on the antimeridian */
        vt_close(); return 0;
    }
    if (argc < 5 || strcmp(argv[1], "run")) return 2;
    int quick = argv[2][0] == 'q'; vt_seed(strtoull(argv[3], 0, 10) + 7); vt_open(argv[4]);
    getPentagons(0, PENT0);
    int npoly = quick ? 260 : 4000; int maxcand = quick ? 1500 : 6000;
    for (int i = 0; i < npoly; i++) { Poly P; if (gen_poly(&P, i, quick)) continue; fill_event(&P, maxcand); }
    /* polygons made from cell boundaries: edges and vertices coincide with those of the cells being tested (touching contacts) */
    g_force_kind = 9; for (int i = 0; i < (quick ? 160 : 1500); i++) { Poly P; if (gen_poly(&P, i, quick)) continue; fill_event(&P, maxcand); } g_force_kind = -1;
    /* concave features: wedges cut into the rim, parallel bands of holes whose bounding boxes overlap */
    for (int i = 0; i < (quick ? 110 : 1100); i++) { Poly P; g_force_kind = i % 5 == 4 ? 14 : i % 4 == 3 ? 13 : 10 + (i % 3 != 0); if (gen_poly(&P, i, quick)) continue; fill_event(&P, maxcand); } g_force_kind = -1;
    /* on the antimeridian: polygons with holes (next to, across and away from it), notches, slivers, pockets */
    { static const int KS[] = {6, 7, 8, 11, 10, 13, 6, 11, 14, 14}; for (int j = 0; j < (quick ? 90 : 800); j++) { Poly P; g_force_kind = KS[j % 10]; if (gen_poly(&P, 8 * j + 1, quick)) continue; fill_event(&P, maxcand); } g_force_kind = -1; }
    /* every boundary segment of the pentagons (10 segments at odd resolutions), of their neighbours and of cells cut by icosahedron edges */
    for (int res = 1; res <= (quick ? 5 : 11); res++) { H3Index pp[12]; getPentagons(res, pp); CellVec cv = {0};
        for (int q = 0; q < 12; q++) { if (quick && (res % 2 == 0) && q % 3) continue; cv_push(&cv, pp[q]); H3Index d[7] = {0}; gridDisk(pp[q], 1, d); cv_push(&cv, d[1 + vt_randn(5)]); }
        if (res >= 3 && (res % 2)) cv_seam_cells(&cv, res, 1);
        for (int64_t i = 0; i < cv.n; i++) { if (!cv.v[i]) continue; CellBoundary cb; if (cellToBoundary(cv.v[i], &cb)) continue; if (quick && i >= 24 && cb.numVerts <= 6 && (i % 4)) continue;
            for (int k = 0; k < cb.numVerts; k++) { Poly P; if (gen_probe_poly(&P, cv.v[i], k)) continue; fill_event(&P, maxcand); } }
        cv_free(&cv); }
    for (int ares = 0; ares <= 14; ares++) for (int tres = ares + 1; tres <= 15 && tres <= ares + 5; tres++) for (int k = 0; k < (quick ? 3 : 15); k++) { Poly P; if (gen_corner_poly(&P, ares, tres, k % 3)) continue; fill_event(&P, maxcand); }
    fprintf(stderr, "events=%ld candidates=%ld ambiguous-centres=%ld\n", n_ev, n_cand, n_amb);
    vt_close(); return 0;
}
