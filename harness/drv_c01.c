/* C01 driver: isValidCell verdicts on given / random / mutated words, and the cells produced by
 * every cell-returning API function (closure clause).
 *   drv_c01 words <in.txt> <out.ndjson>          one hex word per line (from the TLC emit run)
 *   drv_c01 random <n> <seed> <out.ndjson>
 *   drv_c01 produced <n> <seed> <out.ndjson>
 */
#include "vtrace.h"

static void ev_valid(uint64_t h) {
    int o = isValidCell(h);
    fputs("{\"e\":\"isValidCell\",\"h\":", vt_out); vt_word(h); fprintf(vt_out, ",\"o\":%d}\n", o);
}
static void ev_prod(const char *f, uint64_t h) {
    fprintf(vt_out, "{\"e\":\"produced\",\"f\":\"%s\",\"h\":", f); vt_word(h); fputs("}\n", vt_out);
}
static void prod_arr(const char *f, const H3Index *a, int64_t n) { for (int64_t i = 0; i < n; i++) if (a[i]) ev_prod(f, a[i]); }

/* whatever a function wrote beyond the documented size of its output (into the canary area of a guarded buffer) is a cell it
 * produced too: each such word is an observation like the others (the canary bytes themselves never form a valid cell) */
static void prod_beyond(const char *f, H3Index *a, int64_t n) {
    if (gb_ok(a)) return;
    unsigned char *e = (unsigned char *)(a + n); unsigned char c0 = e[8191];      /* the last canary byte tells the pattern unless 8 KB were overrun */
    for (int k = 0; k < 1024; k++) { int dirty = 0; for (int b = 0; b < 8; b++) if (e[8 * k + b] != c0) dirty = 1; if (dirty) { H3Index w; memcpy(&w, e + 8 * k, 8); if (w) ev_prod(f, w); } }
    vt_overrun_check(a, f, 0);
}

static void do_produced(int n) {
    H3Index r0[122]; getRes0Cells(r0); prod_arr("getRes0Cells", r0, 122);
    for (int r = 0; r <= 15; r++) { H3Index p[12]; getPentagons(r, p); prod_arr("getPentagons", p, 12); }
    for (int it = 0; it < n; it++) {
        int res = (int)vt_randn(16);
        H3Index h = vt_random_cell(res), o, o2[2];
        if (it % 8 == 5) { H3Index pp[12]; getPentagons(res, pp); h = pp[vt_randn(12)]; }       /* pentagon parents: the deleted sub-tree */
        LatLng g = {(vt_rand01() - 0.5) * M_PI, (vt_rand01() - 0.5) * 2 * M_PI};
        if (!latLngToCell(&g, res, &o)) ev_prod("latLngToCell", o);
        if (res > 0 && !cellToParent(h, (int)vt_randn(res + 1), &o)) ev_prod("cellToParent", o);
        int cr = res + (int)vt_randn(16 - res);
        if (!cellToCenterChild(h, cr, &o)) ev_prod("cellToCenterChild", o);
        if (cr - res <= 3) {
            int64_t sz; cellToChildrenSize(h, cr, &sz);
            H3Index *ch = gb_alloc(sz, sizeof(H3Index), 0); cellToChildren(h, cr, ch); prod_arr("cellToChildren", ch, sz); prod_beyond("cellToChildren", ch, sz);
            int64_t pos = (int64_t)vt_randn(sz);
            if (!childPosToCell(pos, h, cr, &o)) ev_prod("childPosToCell", o);
            /* compact the children and some of their neighbours */
            H3Index *cs = gb_alloc(sz, sizeof(H3Index), 0);
            if (!compactCells(ch, cs, sz)) prod_arr("compactCells", cs, sz); prod_beyond("compactCells", cs, sz);
            int64_t usz;
            if (!uncompactCellsSize(cs, sz, cr, &usz) && usz <= 400) {
                H3Index *un = gb_alloc(usz, sizeof(H3Index), 0);
                if (!uncompactCells(cs, sz, un, usz, cr)) prod_arr("uncompactCells", un, usz); prod_beyond("uncompactCells", un, usz);
                gb_free(un);
            }
            gb_free(cs); gb_free(ch);
        }
        /* childPosToCell at every depth (no enumeration needed): first, last, middle and random positions; every fourth time the
           parent is coarse (res 0..2, pentagons included) and the child resolution 12..15 */
        { H3Index par = h; int pr = res, ccr = cr;
          if (it % 4 == 0) { pr = (int)vt_randn(3); par = vt_random_cell(pr); if (it % 8 == 0) { H3Index pp[12]; getPentagons(pr, pp); par = pp[vt_randn(12)]; } ccr = 12 + (int)vt_randn(4); }
          int64_t sz; if (!cellToChildrenSize(par, ccr, &sz) && sz > 0) {
              int64_t ps[5] = {0, sz - 1, sz / 2, (int64_t)(vt_rand01() * (double)sz), (int64_t)(vt_rand01() * (double)sz)};
              for (int q = 0; q < 5; q++) if (ps[q] >= 0 && ps[q] < sz && !childPosToCell(ps[q], par, ccr, &o)) ev_prod("childPosToCell", o);
              /* closure also for scalar arguments outside the domain (the cells given are valid): whatever comes back with E_SUCCESS must be a valid cell */
              int64_t full = 1; for (int q = pr; q < ccr && full < ((int64_t)1 << 50); q++) full *= 7;
              int64_t bad[5] = {sz, sz + 1, full - 1, sz + (int64_t)(vt_rand01() * (double)(full - sz + 1)), -1};
              for (int q = 0; q < 5; q++) { o = 0; if (!childPosToCell(bad[q], par, ccr, &o)) ev_prod("childPosToCell", o); } } }
        { CoordIJ ij = {(int)vt_randn(41) - 20, (int)vt_randn(41) - 20}; if (vt_randn(8) == 0) { ij.i *= 100000; ij.j *= 77777; } o = 0; if (!localIjToCell(h, &ij, 0, &o)) ev_prod("localIjToCell", o); }
        int k = (int)vt_randn(4);
        int64_t dsz; maxGridDiskSize(k, &dsz);
        H3Index *d = calloc(dsz, sizeof(H3Index)); int *dist = calloc(dsz, sizeof(int));
        if (!gridDisk(h, k, d)) prod_arr("gridDisk", d, dsz);
        memset(d, 0, dsz * sizeof(H3Index));
        if (!gridDiskDistancesSafe(h, k, d, dist)) prod_arr("gridDiskDistancesSafe", d, dsz);
        memset(d, 0, dsz * sizeof(H3Index));
        if (!gridDiskUnsafe(h, k, d)) prod_arr("gridDiskUnsafe", d, dsz);
        memset(d, 0, dsz * sizeof(H3Index));
        if (!gridRingUnsafe(h, k, d)) prod_arr("gridRingUnsafe", d, k ? 6 * k : 1);
        /* path to a random member of the disk */
        memset(d, 0, dsz * sizeof(H3Index)); gridDisk(h, k, d);
        H3Index t = d[vt_randn(dsz)]; if (!t) t = h;
        int64_t psz;
        if (!gridPathCellsSize(h, t, &psz)) {
            H3Index *pth = calloc(psz, sizeof(H3Index));
            if (!gridPathCells(h, t, pth)) prod_arr("gridPathCells", pth, psz);
            free(pth);
        }
        CoordIJ ij;
        if (!cellToLocalIj(h, t, 0, &ij)) {
            ij.i += (int)vt_randn(5) - 2; ij.j += (int)vt_randn(5) - 2;
            if (!localIjToCell(h, &ij, 0, &o)) ev_prod("localIjToCell", o);
        }
        H3Index e;
        if (t != h && !cellsToDirectedEdge(h, t, &e)) {
            if (!getDirectedEdgeOrigin(e, &o)) ev_prod("getDirectedEdgeOrigin", o);
            if (!getDirectedEdgeDestination(e, &o)) ev_prod("getDirectedEdgeDestination", o);
            if (!directedEdgeToCells(e, o2)) prod_arr("directedEdgeToCells", o2, 2);
        }
        H3Index es[6];
        if (!originToDirectedEdges(h, es)) for (int i = 0; i < 6; i++) if (es[i] && !getDirectedEdgeDestination(es[i], &o)) ev_prod("getDirectedEdgeDestination", o);
        free(d); free(dist);
        /* polygon fill of the cell's own boundary at a finer resolution */
        if (it % 4 == 0 && res <= 13) {
            CellBoundary cb; cellToBoundary(h, &cb);
            GeoPolygon gp = {{cb.numVerts, cb.verts}, 0, NULL};
            int pr = res + 1 + (int)vt_randn(2); if (pr > 15) pr = 15;
            int64_t msz;
            if (!maxPolygonToCellsSize(&gp, pr, 0, &msz) && msz < 5000) {
                H3Index *pc = calloc(msz, sizeof(H3Index));
                if (!polygonToCells(&gp, pr, 0, pc)) prod_arr("polygonToCells", pc, msz);
                free(pc);
            }
            if (!maxPolygonToCellsSizeExperimental(&gp, pr, (uint32_t)vt_randn(4), &msz) && msz < 5000) {
                H3Index *pc = calloc(msz, sizeof(H3Index));
                if (!polygonToCellsExperimental(&gp, pr, (uint32_t)vt_randn(4), msz, pc)) prod_arr("polygonToCellsExperimental", pc, msz);
                free(pc);
            }
        }
    }
}

int main(int argc, char **argv) {
    if (argc < 2) return 2;
    if (!strcmp(argv[1], "words") && argc == 4) {
        FILE *in = fopen(argv[2], "r"); if (!in) { perror(argv[2]); return 2; }
        vt_open(argv[3]);
        uint64_t h;
        while (fscanf(in, "%" SCNx64, &h) == 1) ev_valid(h);
        fclose(in);
    } else if (!strcmp(argv[1], "random") && argc == 5) {
        int n = atoi(argv[2]); vt_seed(strtoull(argv[3], 0, 10)); vt_open(argv[4]);
        for (int i = 0; i < n; i++) {
            uint64_t h;
            switch (vt_randn(4)) {
                case 0: h = vt_rand(); break;
                case 1: h = vt_random_cell((int)vt_randn(16)); break;
                case 2: h = vt_mutate_word(vt_random_cell((int)vt_randn(16))); break;
                default: h = vt_mutate_word(vt_mutate_word(vt_random_cell((int)vt_randn(16)))); break;
            }
            ev_valid(h);
        }
    } else if (!strcmp(argv[1], "produced") && argc == 5) {
        int n = atoi(argv[2]); vt_seed(strtoull(argv[3], 0, 10)); vt_open(argv[4]);
        do_produced(n);
    } else return 2;
    vt_close();
    return 0;
}
