/* C18 driver: a mixed workload run sequentially (reference) and then concurrently on T threads.
 *   drv_threads <rounds> <seed> <out>
 * Linked against libh3.so (built -fPIC, -z now) so that the library's writable segments can be located
 * with dl_iterate_phdr and hashed after every call. */
#define _GNU_SOURCE
#include <link.h>
#include <pthread.h>
#include <unistd.h>
#include "vtrace.h"

/* ---- hash of the writable PT_LOAD segments of libh3.so ---- */
static struct { const unsigned char *p; size_t n; } seg[8]; static int nseg = 0;
static int phdr_cb(struct dl_phdr_info *info, size_t size, void *data) {
    (void)size; (void)data;
    if (!info->dlpi_name || !strstr(info->dlpi_name, "libh3")) return 0;
    for (int i = 0; i < info->dlpi_phnum; i++) {
        const ElfW(Phdr) *ph = &info->dlpi_phdr[i];
        if (ph->p_type == PT_LOAD && (ph->p_flags & PF_W) && nseg < 8) { seg[nseg].p = (const unsigned char *)(info->dlpi_addr + ph->p_vaddr); seg[nseg].n = ph->p_memsz; nseg++; }
    }
    return 0;
}
static uint64_t fnv(uint64_t h, const void *p, size_t n) { const unsigned char *b = p; for (size_t i = 0; i < n; i++) { h ^= b[i]; h *= 0x100000001b3ULL; } return h; }
#define FNV0 0xcbf29ce484222325ULL
static uint64_t globals_hash(void) { uint64_t h = FNV0; for (int i = 0; i < nseg; i++) h = fnv(h, seg[i].p, seg[i].n); return h; }

/* ---- the workload: call id -> digest of (return code, outputs) ---- */
#define NCALLS 144   /* calls 96..143: the same twelve kinds of call on cells that straddle the antimeridian (even) or sit next to a pole (odd blocks of twelve) */
static H3Index PENT[16][12];
static H3Index cellA[NCALLS];
static void prepare(uint64_t seed) {
    vt_seed(seed); for (int r = 0; r < 16; r++) getPentagons(r, PENT[r]);
    for (int i = 0; i < 96; i++) cellA[i] = (i % 3 == 0) ? PENT[1 + (i * 5) % 15][i % 12] : vt_random_cell(1 + (i * 7) % 15);
    for (int i = 96; i < NCALLS; i++) { int res = 1 + (i * 7) % 13; LatLng g = {(vt_rand01() - 0.5) * 2.4, (i & 1) ? M_PI : -M_PI};
        if ((i / 12) % 4 == 3) { g.lat = (i & 1 ? 1 : -1) * (M_PI_2 - 0.01 * vt_rand01()); g.lng = (vt_rand01() - 0.5) * 6.28; }
        cellA[i] = 0; latLngToCell(&g, res, &cellA[i]); }
}
static uint64_t do_call(int c) {
    uint64_t h = FNV0; H3Error r = 0; H3Index a = cellA[c]; int res = getResolution(a);
    switch (c % 12) {
        case 0: { CellBoundary cb; memset(&cb, 0, sizeof cb); r = cellToBoundary(a, &cb); h = fnv(h, &cb.numVerts, sizeof(int)); h = fnv(h, cb.verts, sizeof(LatLng) * (cb.numVerts > 0 && cb.numVerts <= 10 ? cb.numVerts : 0)); double ar = 0; r |= cellAreaRads2(a, &ar); h = fnv(h, &ar, sizeof ar); break; }
        case 1: { LatLng g; r = cellToLatLng(a, &g); H3Index o = 0; r |= latLngToCell(&g, res, &o); h = fnv(h, &g, sizeof g); h = fnv(h, &o, 8); break; }
        case 2: { int64_t n; maxGridDiskSize(3, &n); H3Index *o = calloc(n, 8); int *d = calloc(n, sizeof(int)); int v = (c / 12) % 4;
            if (v == 0) r = gridDiskDistances(a, 3, o, d); else if (v == 1) r = gridDisk(a, 3, o); else if (v == 2) { r = gridRingUnsafe(a, 2, o); r |= gridDiskDistancesSafe(a, 2, o + 12, d); }
            else { H3Index two[2] = {a, a}; H3Index nb[7] = {0}; gridDisk(a, 1, nb); if (nb[3]) two[1] = nb[3]; H3Index *o2 = calloc(2 * 7, 8); r = gridDisksUnsafe(two, 2, 1, o2); h = fnv(h, o2, 14 * 8); free(o2); int nbr = -1; r |= areNeighborCells(two[0], two[1], &nbr); h = fnv(h, &nbr, sizeof nbr); }
            h = fnv(h, o, n * 8); h = fnv(h, d, n * sizeof(int)); free(o); free(d); break; }
        case 3: { int cr = res + ((c / 12) % 2 ? 3 : 2); if (cr > 15) cr = 15; int64_t n; cellToChildrenSize(a, cr, &n); H3Index *o = calloc(n, 8), *cp = calloc(n, 8); r = cellToChildren(a, cr, o); r |= compactCells(o, cp, n); h = fnv(h, o, n * 8); h = fnv(h, cp, n * 8);
            int64_t un = 0; r |= uncompactCellsSize(cp, n, cr, &un); if (un == n) { H3Index *u = calloc(n, 8); r |= uncompactCells(cp, n, u, n, cr); h = fnv(h, u, n * 8); free(u); } free(o); free(cp); break; }
        case 4: case 5: { CellBoundary cb; cellToBoundary(a, &cb); GeoPolygon gp = {{cb.numVerts, cb.verts}, 0, NULL}; int pr = res + 2 > 15 ? 15 : res + 2; int64_t n = 0;
            CellBoundary hb; GeoLoop hole; if ((c / 12) % 2 && res + 1 <= 15) { H3Index cc; cellToCenterChild(a, res + 1, &cc); cellToBoundary(cc, &hb); hole.numVerts = hb.numVerts; hole.verts = hb.verts; gp.numHoles = 1; gp.holes = &hole; }
            if (c % 12 == 4) { r = maxPolygonToCellsSize(&gp, pr, 0, &n); if (!r) { H3Index *o = calloc(n, 8); r = polygonToCells(&gp, pr, 0, o); h = fnv(h, o, n * 8); free(o); } }
            else { uint32_t fl = (uint32_t)(c / 12) % 4; r = maxPolygonToCellsSizeExperimental(&gp, pr, fl, &n); if (!r) { H3Index *o = calloc(n, 8); r = polygonToCellsExperimental(&gp, pr, fl, n, o); h = fnv(h, o, n * 8); free(o); } }
            h = fnv(h, &n, 8); break; }
        case 6: { int v = (c / 12) % 4; int k = v == 3 ? 5 : v == 2 ? 3 : 2; int64_t n; maxGridDiskSize(k, &n); H3Index *set = calloc(n, 8); int *dd = calloc(n, sizeof(int)); gridDiskDistances(a, k, set, dd); int m = 0;
            /* 0: filled disk; 1: ring (one hole); 2: disk minus centre plus nothing else (hole of one cell); 3: nested rings and an isolated cell (holes inside holes, three outer loops) */
            for (int64_t i = 0; i < n; i++) if (set[i] && (v == 0 || (v == 1 && dd[i] == 2) || (v == 2 && dd[i] >= 1) || (v == 3 && (dd[i] == 1 || dd[i] == 3 || (dd[i] == 5 && m < 40 && i % 7 == 0))))) set[m++] = set[i];
            free(dd);
            LinkedGeoPolygon lp; memset(&lp, 0, sizeof lp); r = cellsToLinkedMultiPolygon(set, m, &lp);
            if (!r) { for (LinkedGeoPolygon *p = &lp; p; p = p->next) for (LinkedGeoLoop *q = p->first; q; q = q->next) for (LinkedLatLng *v = q->first; v; v = v->next) h = fnv(h, &v->vertex, sizeof(LatLng)); destroyLinkedMultiPolygon(&lp); }
            free(set); break; }
        case 7: { H3Index d[19] = {0}; gridDisk(a, 2, d); H3Index b = 0; for (int i = 18; i >= 0; i--) if (d[i]) { b = d[i]; break; } int64_t n = 0; r = gridPathCellsSize(a, b, &n); if (!r && n < 64) { H3Index o[64] = {0}; r = gridPathCells(a, b, o); h = fnv(h, o, n * 8); } int64_t dist = -1; r |= gridDistance(a, b, &dist); h = fnv(h, &dist, 8); break; }
        case 8: { H3Index v[6] = {0}, e[6] = {0}; r = cellToVertexes(a, v); r |= originToDirectedEdges(a, e); h = fnv(h, v, 48); h = fnv(h, e, 48); for (int i = 0; i < 6; i++) if (v[i]) { LatLng g; vertexToLatLng(v[i], &g); h = fnv(h, &g, sizeof g); } for (int i = 0; i < 6; i++) if (e[i]) { CellBoundary cb; memset(&cb, 0, sizeof cb); directedEdgeToBoundary(e[i], &cb); h = fnv(h, cb.verts, sizeof(LatLng) * (cb.numVerts > 0 && cb.numVerts <= 10 ? cb.numVerts : 0)); double len; edgeLengthRads(e[i], &len); h = fnv(h, &len, 8); } break; }
        case 9: { int o[5] = {-2, -2, -2, -2, -2}; r = getIcosahedronFaces(a, o); h = fnv(h, o, sizeof o); char s[32]; h3ToString(a, s, 32); h = fnv(h, s, strlen(s)); const char *d = describeH3Error((H3Error)(c % 16)); h = fnv(h, d, strlen(d));
            H3Index back = 0; r |= stringToH3(s, &back); h = fnv(h, &back, 8); LatLng g1, g2; cellToLatLng(a, &g1); cellToLatLng(cellA[(c + 1) % NCALLS], &g2); double gd = greatCircleDistanceKm(&g1, &g2), ak = 0; r |= cellAreaKm2(a, &ak); h = fnv(h, &gd, 8); h = fnv(h, &ak, 8);
            int mf = 0; r |= maxFaceCount(a, &mf); h = fnv(h, &mf, sizeof mf); int iv = isValidCell(a), ip = isPentagon(a), c3 = isResClassIII(a), bn = getBaseCellNumber(a); h = fnv(h, &iv, 4); h = fnv(h, &ip, 4); h = fnv(h, &c3, 4); h = fnv(h, &bn, 4); break; }
        case 10: { H3Index p = 0; r = cellToParent(a, res > 2 ? res - 2 : 0, &p); int64_t pos = -1; r |= cellToChildPos(a, res > 2 ? res - 2 : 0, &pos); H3Index back = 0; r |= childPosToCell(pos, p, res, &back); h = fnv(h, &p, 8); h = fnv(h, &pos, 8); h = fnv(h, &back, 8); CoordIJ ij = {0, 0}; H3Index d[7] = {0}; gridDisk(a, 1, d); cellToLocalIj(a, d[2] ? d[2] : a, 0, &ij); h = fnv(h, &ij, sizeof ij);
            H3Index lb = 0; r |= localIjToCell(a, &ij, 0, &lb); h = fnv(h, &lb, 8);
            if (d[2]) { H3Index e = 0, od[2] = {0, 0}, og = 0, ds = 0; r |= cellsToDirectedEdge(a, d[2], &e); r |= directedEdgeToCells(e, od); r |= getDirectedEdgeOrigin(e, &og); r |= getDirectedEdgeDestination(e, &ds); int ve = isValidDirectedEdge(e); h = fnv(h, &e, 8); h = fnv(h, od, 16); h = fnv(h, &og, 8); h = fnv(h, &ds, 8); h = fnv(h, &ve, sizeof ve);
                H3Index vx = 0; r |= cellToVertex(a, 2, &vx); int vv = isValidVertex(vx); h = fnv(h, &vx, 8); h = fnv(h, &vv, sizeof vv); }
            break; }
        default: { H3Index o[12] = {0}; r = getPentagons(c % 16, o); h = fnv(h, o, 96); H3Index r0[122]; getRes0Cells(r0); h = fnv(h, r0, sizeof r0); int64_t n; getNumCells(c % 16, &n); h = fnv(h, &n, 8); double ar; getHexagonAreaAvgKm2(c % 16, &ar); h = fnv(h, &ar, 8); break; }
    }
    return fnv(h, &r, sizeof r);
}

/* ---- threads ---- */
typedef struct { int t, T, rounds; uint64_t seed; char *buf; size_t len, cap; } Th;
static pthread_barrier_t bar;
static void th_log(Th *th, int seq, int c, uint64_t dig, uint64_t gh) {
    if (th->len + 200 > th->cap) { th->cap = th->cap * 2 + 4096; th->buf = realloc(th->buf, th->cap); }
    th->len += (size_t)snprintf(th->buf + th->len, 120, "{\"e\":\"Ret\",\"t\":%d,\"seq\":%d,\"c\":%d,\"dig\":[%u,%u,%u,%u]", th->t, seq, c,
        (unsigned)(dig >> 45), (unsigned)((dig >> 30) & 0x7fff), (unsigned)((dig >> 15) & 0x7fff), (unsigned)(dig & 0x7fff));
    if (gh) th->len += (size_t)snprintf(th->buf + th->len, 70, ",\"gh\":[%u,%u,%u,%u]", (unsigned)(gh >> 45), (unsigned)((gh >> 30) & 0x7fff), (unsigned)((gh >> 15) & 0x7fff), (unsigned)(gh & 0x7fff));
    th->len += (size_t)snprintf(th->buf + th->len, 4, "}\n");
}
static int g_cold = 0;
/* a worker that has not finished 300 s after the join started is stuck inside a library call (a whole execution takes seconds):
 * recorded as a Hang event, which no trace specification consumes, and the process ends */
#include <time.h>
static void join_or_hang(pthread_t th) {
    struct timespec ts; clock_gettime(CLOCK_REALTIME, &ts); ts.tv_sec += 300;
    if (pthread_timedjoin_np(th, NULL, &ts) == 0) return;
    if (vt_out) { fputs("{\"e\":\"Hang\",\"how\":\"a concurrent call did not return within 300 s\"}\n", vt_out); fflush(vt_out); }
    _exit(0);
}
static void *worker(void *arg) {
    Th *th = arg; uint64_t s = th->seed * 1315423911ULL + (uint64_t)th->t * 2654435761ULL; int seq = 0;
    pthread_barrier_wait(&bar);
    for (int it = 0; it < th->rounds * NCALLS; it++) {
        s = s * 6364136223846793005ULL + 1442695040888963407ULL; int c = (int)((s >> 33) % NCALLS);
        if (it % 3 == 0) c = (c / 12) * 12;                 /* plenty of concurrent boundary / area calls (pentagons among them) */
        if (g_cold && it < NCALLS) c = (it * 11 + (it / 12)) % NCALLS;   /* cold start: all threads make the same calls at the same time, so that
                                                                    every function's FIRST use in the process is concurrent */
        uint64_t d = do_call(c); uint64_t gh = (nseg && it % 8 == 0) ? globals_hash() : 0;   /* the hash is sampled every 8th call */
        th_log(th, ++seq, c, d, gh);
    }
    return NULL;
}

/* Cold-start executions (lazily initialised state, first-use races): "ref <seed> <file>" computes the workload's cells and the
 * sequential digests in one process; "cold <seed> <file> <out>" is a fresh process that makes NO library call before it has
 * hashed the library's writable segments and released T threads, which then all walk the workload in the same order. */
static int ref_main(uint64_t seed, const char *path) {
    prepare(seed); FILE *f = fopen(path, "w"); if (!f) return 2;
    for (int c = 0; c < NCALLS; c++) fprintf(f, "%" PRIx64 " %" PRIx64 "\n", (uint64_t)cellA[c], do_call(c));
    fclose(f); return 0;
}
static int cold_main(uint64_t seed, const char *refpath, const char *out) {
    static uint64_t refd[NCALLS]; FILE *f = fopen(refpath, "r"); if (!f) return 2;
    for (int c = 0; c < NCALLS; c++) { uint64_t a, d; if (fscanf(f, "%" SCNx64 " %" SCNx64, &a, &d) != 2) return 2; cellA[c] = a; refd[c] = d; }
    fclose(f);
    vt_open(out); dl_iterate_phdr(phdr_cb, NULL); if (nseg == 0) { fprintf(stderr, "libh3.so writable segments not found\n"); return 2; }
    uint64_t g0 = globals_hash();                                /* before the first library call of this process */
    fputs("{\"e\":\"Start\",\"gh\":", vt_out); vt_word(g0); fprintf(vt_out, ",\"segments\":%d,\"cold\":1}\n", nseg);
    for (int c = 0; c < NCALLS; c++) { fprintf(vt_out, "{\"e\":\"Ref\",\"c\":%d,\"dig\":", c); vt_word(refd[c]); fputs(",\"gh\":", vt_out); vt_word(g0); fputs("}\n", vt_out); }
    g_cold = 1; int T = 8; pthread_t th[16]; Th ctx[16];
    pthread_barrier_init(&bar, NULL, (unsigned)T);
    fprintf(vt_out, "{\"e\":\"Round\",\"n\":0,\"T\":%d}\n", T);
    for (int t = 0; t < T; t++) { ctx[t] = (Th){t, T, 1, seed, NULL, 0, 0}; pthread_create(&th[t], NULL, worker, &ctx[t]); }
    for (int t = 0; t < T; t++) join_or_hang(th[t]);
    for (int t = 0; t < T; t++) { fwrite(ctx[t].buf, 1, ctx[t].len, vt_out); free(ctx[t].buf); }
    /* and once more sequentially: state left behind by the concurrent phase */
    fprintf(vt_out, "{\"e\":\"Round\",\"n\":1,\"T\":1}\n");
    { Th one = {0, 1, 1, seed, NULL, 0, 0}; for (int c = 0; c < NCALLS; c++) th_log(&one, c + 1, c, do_call(c), globals_hash()); fwrite(one.buf, 1, one.len, vt_out); free(one.buf); }
    vt_close(); return 0;
}

int main(int argc, char **argv) {
    if (argc == 4 && !strcmp(argv[1], "ref")) return ref_main(strtoull(argv[2], 0, 10), argv[3]);
    if (argc == 5 && !strcmp(argv[1], "cold")) return cold_main(strtoull(argv[2], 0, 10), argv[3], argv[4]);
    if (argc < 4) return 2;
    int rounds = atoi(argv[1]); uint64_t seed = strtoull(argv[2], 0, 10); vt_open(argv[3]);
    dl_iterate_phdr(phdr_cb, NULL);
    if (nseg == 0 && !(argc > 4 && !strcmp(argv[4], "nohash"))) { fprintf(stderr, "libh3.so writable segments not found\n"); return 2; }
    prepare(seed);
    uint64_t g0 = globals_hash();
    fputs("{\"e\":\"Start\",\"gh\":", vt_out); vt_word(g0); fprintf(vt_out, ",\"segments\":%d}\n", nseg);
    for (int pass = 0; pass < 2; pass++) for (int c = 0; c < NCALLS; c++) { uint64_t d = do_call(c); fprintf(vt_out, "{\"e\":\"Ref\",\"c\":%d,\"dig\":", c); vt_word(d); fputs(",\"gh\":", vt_out); vt_word(globals_hash()); fputs("}\n", vt_out); }
    static const int TS[] = {2, 3, 4, 8, 16};
    for (int round = 0; round < rounds; round++) {
        int T = TS[round % 5]; pthread_t th[16]; Th ctx[16];
        pthread_barrier_init(&bar, NULL, (unsigned)T);
        fprintf(vt_out, "{\"e\":\"Round\",\"n\":%d,\"T\":%d}\n", round, T);
        for (int t = 0; t < T; t++) { ctx[t] = (Th){t, T, 2, seed + (uint64_t)round * 131, NULL, 0, 0}; pthread_create(&th[t], NULL, worker, &ctx[t]); }
        for (int t = 0; t < T; t++) join_or_hang(th[t]);
        pthread_barrier_destroy(&bar);
        for (int t = 0; t < T; t++) { fwrite(ctx[t].buf, 1, ctx[t].len, vt_out); free(ctx[t].buf); }
    }
    vt_close(); return 0;
}
