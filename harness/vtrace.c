#define VT_NO_GUARD_MACROS 1
#include "vtrace.h"
#include <pthread.h>
#include <execinfo.h>
#include <signal.h>
#include <unistd.h>

__thread FILE *vt_out = NULL;
/* A fatal signal anywhere in a driver: flush what was recorded, print the signal and the symbolic call stack on stderr and exit.
 * tools/vlib.py attributes the crash: if the innermost known frame is a library function it becomes a Crash event of the trace
 * (which no trace specification can consume), if it is harness code it is an infrastructure error. */
static void vt_on_fatal(int sig) {
    static volatile sig_atomic_t busy = 0; if (busy) _exit(139); busy = 1;
    void *bt[48]; int n = backtrace(bt, 48);
    dprintf(2, "\nVERIF-CRASH sig=%d\n", sig);
    backtrace_symbols_fd(bt, n, 2);
    dprintf(2, "VERIF-CRASH-END\n");
    if (vt_out) fflush(vt_out);
    _exit(139);
}
static void vt_install_crash_handler(void) {
    static int done = 0; if (done) return; done = 1;
    /* handlers installed by a driver itself (SIGABRT in drv_api) or by a sanitizer runtime are left alone */
    int sigs[] = {SIGSEGV, SIGBUS, SIGFPE, SIGILL, SIGABRT};
    for (int i = 0; i < 5; i++) { struct sigaction old; sigaction(sigs[i], NULL, &old); if (old.sa_handler == SIG_DFL) signal(sigs[i], vt_on_fatal); }
}
void vt_open(const char *path) {
    vt_install_crash_handler();
    vt_out = fopen(path, "w");
    if (!vt_out) { perror(path); exit(2); }
    static char buf[1 << 20];
    setvbuf(vt_out, buf, _IOFBF, sizeof buf);
}
void vt_close(void) { if (vt_out) { fclose(vt_out); vt_out = NULL; } }
void vt_word(uint64_t h) {
    fprintf(vt_out, "[%u,%u,%u,%u]", (unsigned)(h >> 45), (unsigned)((h >> 30) & 0x7fff),
            (unsigned)((h >> 15) & 0x7fff), (unsigned)(h & 0x7fff));
}
void vt_words(const uint64_t *hs, int64_t n) {
    fputc('[', vt_out);
    for (int64_t i = 0; i < n; i++) { if (i) fputc(',', vt_out); vt_word(hs[i]); }
    fputc(']', vt_out);
}
void vt_words_nz(const uint64_t *hs, int64_t n) {
    fputc('[', vt_out);
    int first = 1;
    for (int64_t i = 0; i < n; i++) if (hs[i]) { if (!first) fputc(',', vt_out); first = 0; vt_word(hs[i]); }
    fputc(']', vt_out);
}
void vt_i64(int64_t v) {
    /* value = hi * 2^30 + lo, 0 <= lo < 2^30 (floor division) */
    int64_t hi = v >> 30; int64_t lo = v & ((1 << 30) - 1);
    /* hi may itself exceed 32 bits for huge values: split again */
    int64_t hh = hi >> 30; int64_t hl = hi & ((1 << 30) - 1);
    fprintf(vt_out, "[%" PRId64 ",%" PRId64 ",%" PRId64 "]", hh, hl, lo);
}

void vt_big(int64_t v) {
    int neg = v < 0; uint64_t u = neg ? (uint64_t)(-(v + 1)) + 1 : (uint64_t)v;
    fprintf(vt_out, "{\"s\":%d,\"l\":[", neg);
    for (int i = 0; i < 5; i++) { fprintf(vt_out, "%s%u", i ? "," : "", (unsigned)(u % 16807)); u /= 16807; }
    fputs("]}", vt_out);
}

static __thread uint64_t rs = 0x9E3779B97F4A7C15ULL;   /* per thread: a driver thread seeds its own stream */
void vt_seed(uint64_t s) { rs = s * 0x9E3779B97F4A7C15ULL + 0x1234567ULL; }
uint64_t vt_rand(void) {
    uint64_t z = (rs += 0x9E3779B97F4A7C15ULL);
    z = (z ^ (z >> 30)) * 0xBF58476D1CE4E5B9ULL;
    z = (z ^ (z >> 27)) * 0x94D049BB133111EBULL;
    return z ^ (z >> 31);
}
uint64_t vt_randn(uint64_t n) { return n ? vt_rand() % n : 0; }
double vt_rand01(void) { return (double)(vt_rand() >> 11) / 9007199254740992.0; }

void cv_push(CellVec *c, uint64_t h) {
    if (c->n == c->cap) { c->cap = c->cap ? c->cap * 2 : 1024; c->v = realloc(c->v, c->cap * sizeof(uint64_t)); }
    c->v[c->n++] = h;
}
void cv_free(CellVec *c) { free(c->v); c->v = NULL; c->n = c->cap = 0; }

void cv_all_cells(CellVec *c, int res) {
    H3Index r0[122];
    getRes0Cells(r0);
    for (int i = 0; i < 122; i++) {
        int64_t n;
        if (cellToChildrenSize(r0[i], res, &n)) continue;
        H3Index *ch = gb_alloc(n, sizeof(H3Index), 0);
        cellToChildren(r0[i], res, ch); vt_overrun_check(ch, "cellToChildren", r0[i]);
        for (int64_t j = 0; j < n; j++) if (ch[j]) cv_push(c, ch[j]);
        gb_free(ch);
    }
}
void cv_pentagon_strata(CellVec *c, int res, int k) {
    H3Index p[12];
    getPentagons(res, p);
    int64_t sz; maxGridDiskSize(k, &sz);
    H3Index *d = gb_alloc(sz, sizeof(H3Index), 0);
    for (int i = 0; i < 12; i++) {
        memset(d, 0, sz * sizeof(H3Index));
        gridDisk(p[i], k, d); vt_overrun_check(d, "gridDisk", p[i]);
        for (int64_t j = 0; j < sz; j++) if (d[j]) cv_push(c, d[j]);
    }
    gb_free(d);
}
uint64_t vt_random_cell(int res) {
    /* build the word directly from the documented layout */
    static const int pent[12] = {4, 14, 24, 38, 49, 58, 63, 72, 83, 97, 107, 117};
    for (;;) {
        int bc = (int)vt_randn(122);
        if (vt_randn(4) == 0) bc = pent[vt_randn(12)];
        uint64_t h = ((uint64_t)1 << 59) | ((uint64_t)res << 52) | ((uint64_t)bc << 45);
        int zeros = 0;
        int isP = 0; for (int i = 0; i < 12; i++) if (pent[i] == bc) isP = 1;
        if (isP && vt_randn(2) == 0) zeros = (int)vt_randn(res + 1); /* stay on the centre chain for a while */
        for (int r = 1; r <= 15; r++) {
            uint64_t d = r <= res ? (r <= zeros ? 0 : vt_randn(7)) : 7;
            h |= d << (3 * (15 - r));
        }
        if (isValidCell(h)) return h;
    }
}
void cv_random_cells(CellVec *c, int res, int n) { for (int i = 0; i < n; i++) cv_push(c, vt_random_cell(res)); }

void cv_seam_cells(CellVec *c, int res, int nPerEdge) {
    /* walk great-circle arcs between neighbouring pentagon centres (icosahedron vertices): these arcs are
       the icosahedron edges */
    H3Index p[12]; LatLng g[12];
    getPentagons(0, p);
    for (int i = 0; i < 12; i++) cellToLatLng(p[i], &g[i]);
    for (int i = 0; i < 12; i++) for (int j = i + 1; j < 12; j++) {
        double d = greatCircleDistanceRads(&g[i], &g[j]);
        if (d > 1.2) continue; /* icosahedron edge = 1.107 rad */
        double a[3] = {cos(g[i].lat) * cos(g[i].lng), cos(g[i].lat) * sin(g[i].lng), sin(g[i].lat)};
        double b[3] = {cos(g[j].lat) * cos(g[j].lng), cos(g[j].lat) * sin(g[j].lng), sin(g[j].lat)};
        for (int s = 0; s < nPerEdge; s++) {
            double t = (s + (nPerEdge > 200 ? 0.5 : vt_rand01())) / nPerEdge;
            double v[3]; double nn = 0;
            for (int q = 0; q < 3; q++) { v[q] = (1 - t) * a[q] + t * b[q]; nn += v[q] * v[q]; }
            nn = sqrt(nn);
            LatLng ll = {asin(v[2] / nn), atan2(v[1], v[0])};
            H3Index h;
            if (latLngToCell(&ll, res, &h) == 0) cv_push(c, h);
        }
    }
}

/* cells on the border between two coarse cells: for each coarser resolution rc, `per` random coarse cells (and one in a pentagon
 * base cell), each with one of its neighbours; the cell of `res` containing the point midway between their centres.  Its
 * neighbours differ from it in the digit of resolution rc (and possibly in the base cell): the carries of every function that
 * works digit by digit propagate all the way up to rc there. */
void cv_coarse_boundary_cells(CellVec *c, int res, int per) {
    int rcs[6] = {0, 1, 2, 3, res - 2, res - 1};
    for (int q = 0; q < 6; q++) { int rc = rcs[q]; if (rc < 0 || rc >= res || (q >= 4 && rc <= 3)) continue;
        for (int t = 0; t < per + 3; t++) {
            /* t = 0: both in one hexagon base cell; 1: in two base cells; 2: next to a pentagon; then random */
            H3Index C = 0, D = 0;
            for (int tries = 0; tries < 60 && !D; tries++) {
                if (t == 2) { H3Index p[12]; getPentagons(rc, p); H3Index d[7] = {0}; gridDisk(p[vt_randn(12)], 1, d); C = d[1 + vt_randn(5)]; if (!C) C = d[1]; }
                else C = vt_random_cell(rc);
                H3Index d[7] = {0}; if (gridDisk(C, 1, d)) continue; int st = (int)vt_randn(7);
                for (int k = 0; k < 7 && !D; k++) { H3Index x = d[(st + k) % 7]; if (!x || x == C) continue;
                    int same = getBaseCellNumber(x) == getBaseCellNumber(C); H3Index b0; cellToParent(C, 0, &b0);
                    if (t == 0 && (!same || isPentagon(b0))) continue; if (t == 1 && same && rc > 0) continue; D = x; }
            }
            if (!D) continue;
            LatLng a, b; cellToLatLng(C, &a); cellToLatLng(D, &b);
            double va[3] = {cos(a.lat) * cos(a.lng), cos(a.lat) * sin(a.lng), sin(a.lat)}, vb[3] = {cos(b.lat) * cos(b.lng), cos(b.lat) * sin(b.lng), sin(b.lat)};
            /* bisect along the arc from the centre of C to the centre of D for the place where the ancestor at rc changes (the
               border between index sub-trees is a fractal near, not on, the common edge of the two hexagons) */
            double lo = 0, hi = 1; H3Index hlo = 0, hhi = 0;
            for (int it = 0; it < 70; it++) { double tt = it == 0 ? 0 : it == 1 ? 1 : (lo + hi) / 2; double m[3], nn = 0; for (int k = 0; k < 3; k++) { m[k] = (1 - tt) * va[k] + tt * vb[k]; nn += m[k] * m[k]; } nn = sqrt(nn);
                LatLng g = {asin(m[2] / nn), atan2(m[1], m[0])}; H3Index h = 0, par = 0; if (latLngToCell(&g, res, &h) || cellToParent(h, rc, &par)) break;
                if (it == 1 && par == C) break;
                if (par == C) { lo = tt; hlo = h; } else { hi = tt; hhi = h; } }
            if (hlo) cv_push(c, hlo); if (hhi) cv_push(c, hhi);
        }
    }
}

/* the 20 face centres: normalised mean of each triple of mutually adjacent icosahedron vertices (res-0 pentagon centres) */
int vt_face_centres(LatLng out[20]) {
    H3Index p[12]; LatLng g[12]; double v[12][3]; getPentagons(0, p); int n = 0;
    for (int i = 0; i < 12; i++) { cellToLatLng(p[i], &g[i]); v[i][0] = cos(g[i].lat) * cos(g[i].lng); v[i][1] = cos(g[i].lat) * sin(g[i].lng); v[i][2] = sin(g[i].lat); }
    for (int i = 0; i < 12; i++) for (int j = i + 1; j < 12; j++) for (int k = j + 1; k < 12; k++) {
        if (greatCircleDistanceRads(&g[i], &g[j]) > 1.2 || greatCircleDistanceRads(&g[i], &g[k]) > 1.2 || greatCircleDistanceRads(&g[j], &g[k]) > 1.2) continue;
        double m[3], nn = 0; for (int q = 0; q < 3; q++) { m[q] = v[i][q] + v[j][q] + v[k][q]; nn += m[q] * m[q]; } nn = sqrt(nn);
        if (n < 20) { out[n].lat = asin(m[2] / nn); out[n].lng = atan2(m[1], m[0]); n++; }
    }
    return n;
}
void cv_face_centre_cells(CellVec *c, int res, int ndir) {
    static const double OFF[] = {0, 1e-9, 1e-8, 1e-7, 4e-7, 1e-6, 2e-6, 4e-6, 1e-5, 1e-4, 5e-4, 1e-3, 2e-3, 3e-3, 5e-3, 1e-2};
    LatLng fc[20]; int nf = vt_face_centres(fc);
    for (int f = 0; f < nf; f++) for (int o = 0; o < 16; o++) for (int d = 0; d < (o ? ndir : 1); d++) {
        double a = vt_rand01() * 2 * M_PI; LatLng g = {fc[f].lat + OFF[o] * sin(a), fc[f].lng + OFF[o] * cos(a) / cos(fc[f].lat)};
        H3Index h = 0; if (!latLngToCell(&g, res, &h)) cv_push(c, h);
    }
}
void cv_basecell_vertex_cells(CellVec *c, int res, int n) {
    H3Index r0[122]; getRes0Cells(r0);
    for (int i = 0; i < n; i++) { CellBoundary cb; if (cellToBoundary(r0[vt_randn(122)], &cb)) continue; LatLng g = cb.verts[vt_randn(cb.numVerts)];
        double jit = vt_randn(4) ? pow(10, -7 + 4 * vt_rand01()) : 0; g.lat += jit * (vt_rand01() - 0.5); g.lng += jit * (vt_rand01() - 0.5);      /* on the corner, or 1e-7 .. 1e-3 rad from it */
        H3Index h = 0; if (latLngToCell(&g, res, &h)) continue; cv_push(c, h);
        H3Index d[7] = {0}; if (!gridDisk(h, 1, d)) { H3Index x = d[1 + vt_randn(6)]; if (x) cv_push(c, x); } }
}
void cv_pentagon_edge_band(CellVec *c, int res, int stride, int phase, int nt) {
    static const double OFF[] = {1e-9, 1e-5, 1e-4, 3e-4};
    H3Index p[12]; LatLng g[12]; double v[12][3]; getPentagons(0, p);
    for (int i = 0; i < 12; i++) { cellToLatLng(p[i], &g[i]); v[i][0] = cos(g[i].lat) * cos(g[i].lng); v[i][1] = cos(g[i].lat) * sin(g[i].lng); v[i][2] = sin(g[i].lat); }
    for (int i = 0; i < 12; i++) { if ((i % stride) != (phase % stride)) continue;
        for (int j = 0; j < 12; j++) { if (j == i || greatCircleDistanceRads(&g[i], &g[j]) > 1.2) continue;
            double nx = v[i][1] * v[j][2] - v[i][2] * v[j][1], ny = v[i][2] * v[j][0] - v[i][0] * v[j][2], nz = v[i][0] * v[j][1] - v[i][1] * v[j][0], nn = sqrt(nx * nx + ny * ny + nz * nz); nx /= nn; ny /= nn; nz /= nn;
            for (int s = 0; s < nt; s++) { double t = 0.004 * pow(40.0, (s + vt_rand01()) / nt);      /* 0.004 .. 0.16 of the edge, log-spaced */
                double m[3]; for (int q = 0; q < 3; q++) m[q] = (1 - t) * v[i][q] + t * v[j][q];
                for (int o = 0; o < 4; o++) for (int sg = -1; sg <= 1; sg += 2) {
                    double w[3] = {m[0] + sg * OFF[o] * nx, m[1] + sg * OFF[o] * ny, m[2] + sg * OFF[o] * nz}; double wn = sqrt(w[0] * w[0] + w[1] * w[1] + w[2] * w[2]);
                    LatLng ll = {asin(w[2] / wn), atan2(w[1], w[0])}; H3Index h; if (!latLngToCell(&ll, res, &h)) cv_push(c, h); } } } }
}
static int cmp_h3(const void *a, const void *b) { uint64_t x = *(const uint64_t *)a, y = *(const uint64_t *)b; return x < y ? -1 : x > y; }
void cv_pentagon_edge_strip(CellVec *c, int res, int stride, int phase) {
    H3Index p[12]; LatLng g[12]; double v[12][3]; getPentagons(0, p); double km; getHexagonEdgeLengthAvgKm(res, &km); double w = km / 6371.0 * 1.7320508;   /* cell width */
    for (int i = 0; i < 12; i++) { cellToLatLng(p[i], &g[i]); v[i][0] = cos(g[i].lat) * cos(g[i].lng); v[i][1] = cos(g[i].lat) * sin(g[i].lng); v[i][2] = sin(g[i].lat); }
    CellVec t = {0};
    for (int i = 0; i < 12; i++) { if ((i % stride) != (phase % stride)) continue;
        for (int j = 0; j < 12; j++) { if (j == i || greatCircleDistanceRads(&g[i], &g[j]) > 1.2) continue;
            double nx = v[i][1] * v[j][2] - v[i][2] * v[j][1], ny = v[i][2] * v[j][0] - v[i][0] * v[j][2], nz = v[i][0] * v[j][1] - v[i][1] * v[j][0], nn = sqrt(nx * nx + ny * ny + nz * nz); nx /= nn; ny /= nn; nz /= nn;
            for (double tt = 0; tt <= 0.16; tt += 0.8 * w / 1.107) { double m[3]; for (int q = 0; q < 3; q++) m[q] = (1 - tt) * v[i][q] + tt * v[j][q];
                for (double off = -2.5 * w; off <= 2.5 * w; off += 0.8 * w) { double x[3] = {m[0] + off * nx, m[1] + off * ny, m[2] + off * nz}; double xn = sqrt(x[0] * x[0] + x[1] * x[1] + x[2] * x[2]);
                    LatLng ll = {asin(x[2] / xn), atan2(x[1], x[0])}; H3Index h; if (!latLngToCell(&ll, res, &h)) cv_push(&t, h); } } } }
    if (t.n) { qsort(t.v, t.n, sizeof(uint64_t), cmp_h3); for (int64_t k = 0; k < t.n; k++) if (k == 0 || t.v[k] != t.v[k - 1]) cv_push(c, t.v[k]); }
    cv_free(&t);
}
void cv_coarse_boundary_sample(CellVec *c, int res, int n) {
    CellVec t = {0}; cv_coarse_boundary_cells(&t, res, 0);
    for (int i = 0; i < n && t.n > 0; i++) cv_push(c, t.v[vt_randn(t.n)]);
    cv_free(&t);
}

/* index words built from the documented layout: one non-zero digit d at position p, every other digit 0 (pentagon and
 * hexagon base cells); and random cells followed by a run of centre digits */
void cv_sparse_digit_cells(CellVec *c, int res, int quick) {
    static const int bcs[] = {4, 14, 38, 58, 97, 117, 0, 20, 65, 121};
    for (int b = 0; b < 10; b++) {
        if (quick && b % 2 && b != 7) continue;
        uint64_t base = ((uint64_t)1 << 59) | ((uint64_t)res << 52) | ((uint64_t)bcs[b] << 45);
        for (int r = res + 1; r <= 15; r++) base |= (uint64_t)7 << (3 * (15 - r));
        if (isValidCell(base)) cv_push(c, base);
        for (int p = 1; p <= res; p++) for (int d = 1; d <= 6; d++) {
            if (quick && (p + d + b) % 3) continue;
            uint64_t h = base | ((uint64_t)d << (3 * (15 - p)));
            if (isValidCell(h)) cv_push(c, h);
        }
        /* two non-zero digits far apart: one near the top, one at the bottom, centre digits in between */
        for (int p = 1; p <= 3 && p < res; p++) for (int q = res; q >= res - 1 && q > p; q--) for (int t = 0; t < (quick ? 1 : 3); t++) {
            uint64_t h = base | ((uint64_t)(1 + vt_randn(6)) << (3 * (15 - p))) | ((uint64_t)(1 + vt_randn(6)) << (3 * (15 - q)));
            if (isValidCell(h)) cv_push(c, h);
        }
    }
    for (int k = 0; k < (quick ? 4 : 20) && res > 0; k++) {
        int pr = (int)vt_randn(res); H3Index a = vt_random_cell(pr), ch;
        if (!cellToCenterChild(a, res, &ch)) cv_push(c, ch);
    }
}
void cv_sparse_digit_sample(CellVec *c, int res, int n) {
    CellVec all = {0}; cv_sparse_digit_cells(&all, res, 0);
    /* always: in three pentagon base cells and one hexagon base cell, a non-zero digit followed by centre digits only */
    static const int bcs[] = {4, 58, 117, 20};
    for (int b = 0; b < 4 && res >= 1; b++) { int p = 1 + (int)vt_randn(res > 3 ? 3 : res); uint64_t h = ((uint64_t)1 << 59) | ((uint64_t)res << 52) | ((uint64_t)bcs[b] << 45) | ((uint64_t)(2 + vt_randn(5)) << (3 * (15 - p)));
        for (int r = res + 1; r <= 15; r++) h |= (uint64_t)7 << (3 * (15 - r)); if (isValidCell(h)) cv_push(c, h); }
    /* always: the centre descendant (all digits 0) of one hexagon and one pentagon base cell, and a cell with a single non-zero
       digit at the finest position below a long run of centre digits */
    { static const int hb[] = {0, 20, 65, 121, 33, 100}, pb[] = {4, 14, 38, 58, 97, 117};
      for (int t = 0; t < 2; t++) { int bc = t ? pb[vt_randn(6)] : hb[vt_randn(6)]; uint64_t h = ((uint64_t)1 << 59) | ((uint64_t)res << 52) | ((uint64_t)bc << 45);
          for (int r = res + 1; r <= 15; r++) h |= (uint64_t)7 << (3 * (15 - r)); if (isValidCell(h)) cv_push(c, h);
          if (res >= 1) { uint64_t g = h | ((uint64_t)(2 + vt_randn(5)) << (3 * (15 - res))); if (isValidCell(g)) cv_push(c, g); } } }
    for (int k = 0; k < n && all.n > 0; k++) cv_push(c, all.v[vt_randn(all.n)]);
    cv_free(&all);
}
void cv_polar_cells(CellVec *c, int res) {
    for (int s = -1; s <= 1; s += 2) {
        LatLng pl = {s * M_PI_2, 0}; H3Index h;
        if (latLngToCell(&pl, res, &h)) continue;
        H3Index d[7] = {0}; gridDisk(h, 1, d);
        for (int i = 0; i < 7; i++) if (d[i]) cv_push(c, d[i]);
    }
}
void cv_antimeridian_cells(CellVec *c, int res, int n) {
    for (int k = 0; k < n; k++) {
        LatLng am = {(k + vt_rand01()) / n * 2.8 - 1.4, (k % 2) ? M_PI : -M_PI}; H3Index h;
        if (latLngToCell(&am, res, &h)) continue;
        H3Index d[7] = {0}; gridDisk(h, 1, d);
        for (int i = 0; i < 7; i++) if (d[i]) cv_push(c, d[i]);
    }
}

/* cells in a band on both sides of every icosahedron edge: nT positions along each edge (its midpoint - the point of the edge
 * closest to the two face centres -, a point near the midpoint, near an end, random ones), 13 offsets from 1e-9 to 3e-3 rad */
void cv_icosa_band_cells(CellVec *c, int res, int nT) {
    static const double OFF[] = {1e-9, 1e-8, 1e-7, 1e-6, 1e-5, 3e-5, 1e-4, 2e-4, 3e-4, 4.5e-4, 6e-4, 1e-3, 3e-3};
    H3Index p[12]; LatLng g[12]; double v[12][3];
    getPentagons(0, p);
    for (int i = 0; i < 12; i++) { cellToLatLng(p[i], &g[i]); v[i][0] = cos(g[i].lat) * cos(g[i].lng); v[i][1] = cos(g[i].lat) * sin(g[i].lng); v[i][2] = sin(g[i].lat); }
    for (int i = 0; i < 12; i++) for (int j = i + 1; j < 12; j++) {
        if (greatCircleDistanceRads(&g[i], &g[j]) > 1.2) continue;
        double nx = v[i][1] * v[j][2] - v[i][2] * v[j][1], ny = v[i][2] * v[j][0] - v[i][0] * v[j][2], nz = v[i][0] * v[j][1] - v[i][1] * v[j][0], nn = sqrt(nx * nx + ny * ny + nz * nz); nx /= nn; ny /= nn; nz /= nn;
        for (int s = 0; s < nT; s++) {
            double t = s == 0 ? 0.5 : s == 1 ? 0.5 + 0.03 * (vt_rand01() - 0.5) : s == 2 ? 0.01 + 0.14 * vt_rand01() : s == 3 ? 0.99 - 0.14 * vt_rand01() : vt_rand01();   /* middle, near either end (inside the pentagons' base cells), anywhere */
            double m[3]; for (int q = 0; q < 3; q++) m[q] = (1 - t) * v[i][q] + t * v[j][q];
            for (int o = 0; o < 13; o++) for (int sg = -1; sg <= 1; sg += 2) {
                double w[3] = {m[0] + sg * OFF[o] * nx, m[1] + sg * OFF[o] * ny, m[2] + sg * OFF[o] * nz}; double wn = sqrt(w[0] * w[0] + w[1] * w[1] + w[2] * w[2]);
                LatLng ll = {asin(w[2] / wn), atan2(w[1], w[0])}; H3Index h; if (!latLngToCell(&ll, res, &h)) cv_push(c, h);
            }
        }
    }
}

uint64_t vt_mutate_word(uint64_t h) {
    switch (vt_randn(9)) {
        case 0: return h ^ ((uint64_t)1 << vt_randn(64));
        case 1: return h ^ ((uint64_t)1 << vt_randn(64)) ^ ((uint64_t)1 << vt_randn(64));
        case 2: return (h & ~((uint64_t)15 << 59)) | (vt_randn(16) << 59);            /* mode */
        case 3: return (h & ~((uint64_t)7 << 56)) | (vt_randn(8) << 56);              /* reserved */
        case 4: { int r = 1 + (int)vt_randn(15); return h | ((uint64_t)7 << (3 * (15 - r))); } /* plant a 7 */
        case 5: { int r = 1 + (int)vt_randn(15);                                      /* plant a digit */
                  return (h & ~((uint64_t)7 << (3 * (15 - r)))) | (vt_randn(8) << (3 * (15 - r))); }
        case 6: return (h & ~((uint64_t)127 << 45)) | (vt_randn(128) << 45);          /* base cell */
        case 7: return (h & ~((uint64_t)15 << 52)) | (vt_randn(16) << 52);            /* resolution */
        default: { /* deleted subsequence: zero a prefix then a 1 */
            int res = (int)((h >> 52) & 15); if (res == 0) return h;
            int r = 1 + (int)vt_randn(res);
            for (int q = 1; q < r; q++) h &= ~((uint64_t)7 << (3 * (15 - q)));
            h = (h & ~((uint64_t)7 << (3 * (15 - r)))) | ((uint64_t)1 << (3 * (15 - r)));
            return h; }
    }
}

#define GB_PAD 8192      /* 1024 cell slots either side: an overrun by a whole sub-tree level still lands in the canaries */
/* The canary bytes rotate between allocations (0x5A.., all ones = -1 in every integer width, zero, 0x7F..): an out-of-bounds READ
 * whose effect depends on the value it finds (a sentinel comparison, a loop bound) then shows up as a difference or as a write. */
typedef struct { size_t bytes; uint64_t magic; size_t pad; unsigned char before, after, fill[6]; } GbHdr;   /* 32 bytes: user pointer stays 16-aligned */
static unsigned gb_ctr = 0;
static void *gb_alloc_pad(size_t bytes, unsigned char fill, size_t pad) {
    static const unsigned char PB[4] = {0xA5, 0xFF, 0x00, 0x80}, PA[4] = {0x5A, 0xFF, 0x00, 0x7F};
    unsigned char *raw = malloc(sizeof(GbHdr) + pad + bytes + pad);
    if (!raw) { fprintf(stderr, "gb_alloc: out of memory\n"); exit(2); }
    unsigned c = __atomic_fetch_add(&gb_ctr, 1, __ATOMIC_RELAXED);
    GbHdr *h = (GbHdr *)raw; h->bytes = bytes; h->magic = 0xC0FFEE1234ULL; h->pad = pad; h->before = PB[c % 4]; h->after = PA[c % 4];
    memset(raw + sizeof(GbHdr), h->before, pad);
    memset(raw + sizeof(GbHdr) + pad, fill, bytes);
    memset(raw + sizeof(GbHdr) + pad + bytes, h->after, pad);
    return raw + sizeof(GbHdr) + pad;
}
static GbHdr *gb_hdr(void *p, size_t pad) { return (GbHdr *)((unsigned char *)p - pad - sizeof(GbHdr)); }
static int gb_ok_pad(void *p, size_t pad) {
    GbHdr *h = gb_hdr(p, pad); unsigned char *u = (unsigned char *)p - pad;
    if (h->magic != 0xC0FFEE1234ULL || h->pad != pad) return 0;
    for (size_t i = 0; i < pad; i++) if (u[i] != h->before) return 0;
    unsigned char *e = (unsigned char *)p + h->bytes;
    for (size_t i = 0; i < pad; i++) if (e[i] != h->after) return 0;
    return 1;
}
void *gb_alloc(size_t n, size_t sz, unsigned char fill) { return gb_alloc_pad(n * sz, fill, GB_PAD); }
int gb_ok(void *p) { return gb_ok_pad(p, GB_PAD); }

/* ---- every malloc / calloc / realloc / free of the drivers (macros in vtrace.h) goes through guarded blocks with 1 KB canaries; a
 * block found damaged when it is freed was overrun by whoever it was handed to: an Overrun event (no trace specification
 * consumes it).  Pointers that did not come from here (open_memstream, the C library) are passed to the real free. */
#define GM_PAD 1024
static pthread_mutex_t gm_mu = PTHREAD_MUTEX_INITIALIZER;
static void **gm_tab = NULL; static size_t gm_cap = 0, gm_n = 0;
static size_t gm_slot(void *p) { size_t i = ((uintptr_t)p >> 4) * 0x9E3779B97F4A7C15ULL % gm_cap; while (gm_tab[i] && gm_tab[i] != p) i = (i + 1) % gm_cap; return i; }
static void gm_add(void *p) {
    pthread_mutex_lock(&gm_mu);
    if ((gm_n + 1) * 2 > gm_cap) { size_t oc = gm_cap; void **ot = gm_tab; gm_cap = oc ? oc * 2 : 4096; gm_tab = calloc(gm_cap, sizeof(void *)); gm_n = 0;
        for (size_t i = 0; i < oc; i++) if (ot[i] && ot[i] != (void *)1) { gm_tab[gm_slot(ot[i])] = ot[i]; gm_n++; } free(ot); }
    gm_tab[gm_slot(p)] = p; gm_n++;
    pthread_mutex_unlock(&gm_mu);
}
static int gm_del(void *p) {      /* 1 if p was one of ours */
    int found = 0; pthread_mutex_lock(&gm_mu);
    if (gm_cap) { size_t i = ((uintptr_t)p >> 4) * 0x9E3779B97F4A7C15ULL % gm_cap; while (gm_tab[i]) { if (gm_tab[i] == p) { gm_tab[i] = (void *)1; found = 1; break; } i = (i + 1) % gm_cap; } }
    pthread_mutex_unlock(&gm_mu); return found;
}
void *vt_gmalloc(size_t sz) { void *p = gb_alloc_pad(sz, 0xCD, GM_PAD); gm_add(p); return p; }
void *vt_gcalloc(size_t n, size_t sz) { void *p = gb_alloc_pad(n * sz, 0, GM_PAD); gm_add(p); return p; }
void vt_gfree(void *p) {
    if (!p) return;
    if (!gm_del(p)) { free(p); return; }
    if (!gb_ok_pad(p, GM_PAD) && vt_out) fputs("{\"e\":\"Overrun\",\"f\":\"?\",\"how\":\"a heap block of the harness was written outside its bounds\"}\n", vt_out);
    free((unsigned char *)p - GM_PAD - sizeof(GbHdr));
}
void *vt_grealloc(void *p, size_t sz) {
    if (!p) return vt_gmalloc(sz);
    pthread_mutex_lock(&gm_mu); int ours = 0; if (gm_cap) { size_t i = ((uintptr_t)p >> 4) * 0x9E3779B97F4A7C15ULL % gm_cap; while (gm_tab[i]) { if (gm_tab[i] == p) { ours = 1; break; } i = (i + 1) % gm_cap; } } pthread_mutex_unlock(&gm_mu);
    if (!ours) return realloc(p, sz);
    size_t old = gb_hdr(p, GM_PAD)->bytes; void *q = vt_gmalloc(sz); memcpy(q, p, old < sz ? old : sz); vt_gfree(p); return q;
}

/* a library function wrote outside the buffer of the documented size that a generator (not an observation) gave it: recorded as an
 * event no trace specification can consume, like a crash inside the library */
void vt_overrun_check(void *p, const char *f, uint64_t arg) {
    if (gb_ok(p) || !vt_out) return;
    fprintf(vt_out, "{\"e\":\"Overrun\",\"f\":\"%s\",\"arg\":", f); vt_word(arg); fputs(",\"how\":\"wrote outside a buffer of the documented size\"}\n", vt_out);
}
void gb_free(void *p) { if (p) free((unsigned char *)p - GB_PAD - sizeof(GbHdr)); }
