/* Model -> code binding of H3VertexGraph.tla (C16): scenarios of the vertex-graph model are replayed into the real
 * vertexGraph.c primitives (internal header, taken only if present) exactly the way h3SetToVertexGraph uses them:
 *   for every edge (from, to) of every cell:  findNodeForEdge(graph, to, from) ? removeVertexNode : addVertexNode(from, to)
 * Vertices are synthetic coordinates whose hash values (before the modulo) are chosen: vertex v has base value HB[v]; the copy
 * computed by cell c lies 1e-12 rad below (value HB[v]) or above (value HB[v] + 1) the hash boundary, so the two copies compare
 * equal under geoAlmostEqual but may hash to adjacent values; HB concentrates on multiples of the bucket count and their
 * neighbours.  The remaining edges are logged as id pairs; Trace_VGraph requires them to be exactly the outline.
 *   drv_vgraph run <tier> <seed> <out.ndjson> */
#include "vtrace.h"
#if defined(__has_include)
#if __has_include("vertexGraph.h")
#include "vertexGraph.h"
#define HAVE_VG 1
#endif
#endif

#ifdef HAVE_VG
#define RES 5                         /* hash scale 1e10 before and after the fix */
#define SCALE 1e10
static LatLng coord(int v, long hb, int off) {
    /* lat separates distinct vertices by far more than EPSILON_RAD; lat + lng sits 1e-12 below / above the boundary (hb + 1) / SCALE */
    LatLng g; g.lat = 1e-3 * v; double sum = (double)(hb + 1) / SCALE + (off ? 1e-12 : -1e-12); g.lng = sum - g.lat; return g;
}
/* three layouts of synthetic cells (cyclic vertex id lists) */
static const int L0[2][6] = {{1, 2, 3, 4, 5, 6}, {3, 2, 7, 8, 9, 10}};
static const int L1[3][6] = {{1, 2, 3, 4, 5, 6}, {3, 2, 7, 8, 9, 10}, {4, 3, 10, 11, 12, 13}};
static const int L2[3][5] = {{1, 2, 3, 4, 5}, {3, 2, 6, 7, 8}, {4, 3, 8, 9, 10}};
#endif

int main(int argc, char **argv) {
    if (argc < 5 || strcmp(argv[1], "run")) return 2;
    int quick = argv[2][0] == 'q'; vt_seed(strtoull(argv[3], 0, 10) + 61); vt_open(argv[4]);
#ifndef HAVE_VG
    (void)quick; fputs("{\"e\":\"vgraphAbsent\"}\n", vt_out);
#else
    static const int NBS[] = {2, 3, 5, 6, 7, 12, 24, 6, 6};
    int n = quick ? 6000 : 120000;
    for (int it = 0; it < n; it++) {
        int layout = (int)vt_randn(3), nc = layout == 0 ? 2 : 3, nvc = layout == 2 ? 5 : 6, NB = NBS[vt_randn(9)];
        int cb[3][6]; for (int c = 0; c < nc; c++) for (int j = 0; j < nvc; j++) cb[c][j] = layout == 0 ? L0[c][j] : layout == 1 ? L1[c][j] : L2[c][j];
        long hb[16]; for (int v = 0; v < 16; v++) { long m = (long)vt_randn(4) * NB; int w = (int)vt_randn(5); hb[v] = w == 0 ? m : w == 1 ? (m ? m - 1 : NB - 1) : w == 2 ? m + 1 : (long)vt_randn(4 * NB); if (vt_randn(6) == 0) hb[v] += 4294967296L / 1 * 0; }
        /* process the cells in a random order, each starting at a random vertex */
        int order[3] = {0, 1, 2}; for (int c = nc - 1; c > 0; c--) { int q = (int)vt_randn(c + 1); int t = order[c]; order[c] = order[q]; order[q] = t; }
        VertexGraph g; initVertexGraph(&g, NB, RES);
        int off[3][16]; for (int c = 0; c < 3; c++) for (int v = 0; v < 16; v++) off[c][v] = (int)vt_randn(2);
        fprintf(vt_out, "{\"e\":\"vgraph\",\"NB\":%d,\"cb\":[", NB);
        for (int k = 0; k < nc; k++) { int c = order[k]; int st = (int)vt_randn(nvc); fputs(k ? ",[" : "[", vt_out);
            for (int j = 0; j < nvc; j++) fprintf(vt_out, "%s%d", j ? "," : "", cb[c][(st + j) % nvc]); fputc(']', vt_out);
            for (int j = 0; j < nvc; j++) { int a = cb[c][(st + j) % nvc], b = cb[c][(st + j + 1) % nvc]; LatLng from = coord(a, hb[a], off[c][a]), to = coord(b, hb[b], off[c][b]);
                VertexNode *e = findNodeForEdge(&g, &to, &from); if (e) removeVertexNode(&g, e); else addVertexNode(&g, &from, &to); } }
        fputs("],\"hb\":[", vt_out); for (int v = 1; v <= 13; v++) fprintf(vt_out, "%s%ld", v > 1 ? "," : "", hb[v]);
        fprintf(vt_out, "],\"size\":%d,\"out\":[", g.size);
        VertexNode *e; int first = 1, guard = 0;
        while ((e = firstVertexNode(&g)) != NULL && guard++ < 100) { int a = (int)llround(e->from.lat / 1e-3), b = (int)llround(e->to.lat / 1e-3); fprintf(vt_out, "%s[%d,%d]", first ? "" : ",", a, b); first = 0; removeVertexNode(&g, e); }
        fputs("]}\n", vt_out);
        destroyVertexGraph(&g);
    }
#endif
    vt_close(); return 0;
}
