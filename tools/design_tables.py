#!/usr/bin/env python3
"""Prints the two generated tables of DESIGN.md (section 11.2 and 12) from evidence/*.json and seeded/MATRIX.json."""
import glob
import json
import os
V = os.path.dirname(os.path.dirname(os.path.abspath(__file__)))
print("| id | tier | TLC model-checking runs (distinct states) | trace suites: events validated against the code | wall |")
print("|---|---|---|---|---|")
for f in sorted(glob.glob(os.path.join(V, "evidence", "C*.json"))):
    e = json.load(open(f)); c = e["coverage"]
    mc = "; ".join("%s/%s %s" % (r["module"], r["cfg"].replace(".cfg", ""), r["distinct"]) for r in c.get("model_checking_runs", []))
    tr = "; ".join("%s %d" % (r["suite"], r["events_accepted"]) for r in c.get("trace_runs", []))
    print("| %s | %s | %s | %s | %ds |" % (e["property_id"], e["tier"], mc, tr, e["wall_s"]))
print()
m = json.load(open(os.path.join(V, "seeded", "MATRIX.json")))
print("| seed | property | what it needs to manifest (abridged) | quick check of its property |")
print("|---|---|---|---|")
for k in sorted(m):
    meta = json.load(open(os.path.join(V, "seeded", k, "meta.json")))
    r = m[k].get("quick", {})
    ch = r.get("checks", {})
    res = ", ".join("%s: %s" % (p, ("VIOLATION x%d" % v["violations"]) if v["violations"] else "missed") for p, v in ch.items())
    need = " ".join(str(meta.get("needs_to_manifest", "")).split())[:230]
    print("| %s | %s | %s | %s |" % (k, meta["property"], need.replace("|", "/"), res))
