#!/usr/bin/env python3
"""seed_matrix.py [--tier quick|thorough] [--checks own|all] [seed ids...]
Applies every seeded change under /verif/seeded/<id>/patch.diff to a scratch copy of /repo's library sources (outside /repo
and /verif, removed afterwards together with its build output), runs the check(s) against the copy and records in
seeded/MATRIX.json whether a VIOLATION was raised.  /repo itself is never touched."""
import json
import os
import shutil
import subprocess
import sys
import tempfile
import time
import hashlib
import fcntl

HERE = os.path.dirname(os.path.abspath(__file__))
VERIF = os.path.dirname(HERE)


def run_one(seed, tier, props):
    sd = os.path.join(VERIF, "seeded", seed)
    d = tempfile.mkdtemp(prefix="h3seed.", dir="/var/tmp")
    try:
        os.makedirs(os.path.join(d, "src/h3lib"))
        shutil.copytree("/repo/src/h3lib/lib", os.path.join(d, "src/h3lib/lib"))
        shutil.copytree("/repo/src/h3lib/include", os.path.join(d, "src/h3lib/include"))
        shutil.copy("/repo/VERSION", d)
        p = subprocess.run(["patch", "-p1", "-s", "--no-backup-if-mismatch", "-i", os.path.join(sd, "patch.diff")], cwd=d,
                           stdout=subprocess.PIPE, stderr=subprocess.STDOUT)
        if p.returncode != 0:
            return dict(applied=False, note=p.stdout.decode()[-400:])
        res = {}
        for prop in props:
            t0 = time.time()
            env = dict(os.environ, VERIF_REPO=d)
            q = subprocess.run([sys.executable, os.path.join(HERE, "check.py"), prop, tier], env=env, cwd=VERIF,
                               stdout=subprocess.PIPE, stderr=subprocess.STDOUT)
            out = q.stdout.decode("utf-8", "replace")
            nv = sum(1 for ln in out.splitlines() if ln.startswith("VIOLATION "))
            first = next((ln for ln in out.splitlines() if ln.startswith("  detail:")), "")[:400]
            res[prop] = dict(exit=q.returncode, violations=nv, wall_s=round(time.time() - t0), first=first)
        return dict(applied=True, checks=res)
    finally:
        h = hashlib.sha1(d.encode()).hexdigest()[:8]
        shutil.rmtree(d, ignore_errors=True)
        shutil.rmtree(os.path.join(VERIF, "build", "alt-" + h), ignore_errors=True)


def main():
    args = sys.argv[1:]
    tier = "quick"
    which = "own"
    while args and args[0].startswith("--"):
        if args[0] == "--tier":
            tier = args[1]
        elif args[0] == "--checks":
            which = args[1]
        args = args[2:]
    seeds = args or sorted(x for x in os.listdir(os.path.join(VERIF, "seeded")) if os.path.isdir(os.path.join(VERIF, "seeded", x)))
    mpath = os.path.join(VERIF, "seeded", "MATRIX.json")
    allprops = [json.loads(l)["id"] for l in open(os.path.join(VERIF, "properties.jsonl")) if l.strip()]
    for s in seeds:
        meta = json.load(open(os.path.join(VERIF, "seeded", s, "meta.json")))
        props = allprops if which == "all" else [meta["property"]]
        r = run_one(s, tier, props)
        r["property"] = meta["property"]
        r["tier"] = tier
        r["repo_head"] = subprocess.check_output(["git", "-C", "/repo", "log", "-1", "--format=%h"]).decode().strip()
        r["verif_head"] = subprocess.check_output(["git", "-C", VERIF, "log", "-1", "--format=%h"]).decode().strip()
        with open(mpath + ".lock", "w") as lk:          # several invocations may run side by side
            fcntl.flock(lk, fcntl.LOCK_EX)
            mat = json.load(open(mpath)) if os.path.exists(mpath) else {}
            ent = mat.setdefault(s, {})
            ent[tier + ("-all" if which == "all" else "")] = r
            json.dump(mat, open(mpath + ".tmp", "w"), indent=1, sort_keys=True)
            os.replace(mpath + ".tmp", mpath)
        if r.get("applied"):
            print(s, {k: ("CAUGHT(%d)" % v["violations"] if v["violations"] else "missed rc=%d" % v["exit"]) for k, v in r["checks"].items()}, flush=True)
        else:
            print(s, "PATCH DOES NOT APPLY", r.get("note", "")[:200], flush=True)


if __name__ == "__main__":
    main()
