#!/usr/bin/env python3
"""check.py <Cxx> quick|thorough      run the check of one property
   check.py --replay <path>            print a recorded violation"""
import importlib
import json
import os
import sys
import traceback

sys.path.insert(0, os.path.dirname(os.path.abspath(__file__)))
import vlib  # noqa: E402


def main():
    if len(sys.argv) >= 3 and sys.argv[1] == "--replay":
        print(json.dumps(json.load(open(sys.argv[2])), indent=1)[:20000])
        return 0
    if len(sys.argv) < 2:
        print(__doc__)
        return 2
    prop = sys.argv[1].upper()
    tier = sys.argv[2] if len(sys.argv) > 2 else os.environ.get("VERIF_TIER", "quick")
    tier = "thorough" if tier.startswith("t") else "quick"
    mod = importlib.import_module("props." + prop.lower())
    ck = vlib.Check(prop, tier, getattr(mod, "LEVEL", "model_checking"))
    try:
        mod.run(ck)
    except vlib.InfraError as ex:
        # infrastructure failure: never a VIOLATION line; exit 2
        print("INFRA-ERROR %s: %s" % (prop, ex))
        traceback.print_exc()
        ck.ev.notes.append("infrastructure error: %s" % str(ex)[:500])
        ck.ev.write()
        return 2
    return ck.finish()


if __name__ == "__main__":
    sys.exit(main())
