#!/usr/bin/env python3
"""Writes /verif/MANIFEST.json from the table below (keeps it valid and in sync with the checks)."""
import json
import os
import sys

HERE = os.path.dirname(os.path.abspath(__file__))
VERIF = os.path.dirname(HERE)

# property -> (technique, level text, level note, design ref); only properties with a working check
CLAIMED = {
    "C16": (
        "TLC: outline semantics on integer vertex ids (boundary edge set = disjoint simple cycles, one polygon per component of the spec's neighbour graph; Euler relation on the whole res-0 sphere) + allocator contract; TLC trace validation of cellsToLinkedMultiPolygon / destroy executions with every allocation logged",
        "H3LinkedGeo.tla defines the outline of a cell set combinatorially: with coordinates clustered to vertex ids, the "
        "directed cell edges whose reverse is no cell edge form the boundary, a disjoint union of simple cycles; components "
        "come from the neighbour graph N. MC_LinkedGeo checks on the model's own res-0 sphere (corners = triangles of the "
        "graph) that every corner meets 0 or 2 boundary edges, #cycles = comps(S) + comps(complement) - 1 and each cycle "
        "belongs to one component, for all sets of <= 4 (6) cells of a pentagon's 2-disk and <= 3 of a hexagon's. Every "
        "recorded call (Trace_LMP.tla) must return exactly those cycles: loops simple, >= 3 vertices, all boundary vertices "
        "of input cells, every loop edge a boundary edge, no edge twice, all boundary edges covered; #polygons = #components; "
        "all loops of a polygon owned by cells of one component, distinct polygons distinct components; first loop "
        "counter-clockwise, others clockwise; per polygon the signed loop areas sum to the area of its component's cells "
        "(integers, 1e-4 of a mean cell). The library runs on the allocator seam: a successful call may retain blocks, "
        "destroyLinkedMultiPolygon must free all of them, an error return (H3_NULL / invalid cell inside the set, all base "
        "cells minus two) must leave none, no double or foreign free. Inputs: 430 (6100) sets at res 0-15: belts up to 340 degrees wide at res 0-2, disks, disks "
        "minus random cells, rings, islands in holes, nested rings with extra components, sparse sets, sub-trees, paths; "
        "around pentagons, on the antimeridian and icosahedron edges; shuffled.",
        "Vertex ids (1e-12 rad clustering, C08), orientation signs and areas are numeric projections of the harness (long "
        "double); sets that contain a pole's cell or reach beyond 83 degrees of latitude, wrap round the globe (no free "
        "meridian) or cover more than 0.9 of a hemisphere are outside the judged domain (allocator contract only). An error "
        "return on a valid set inside the domain is a violation. Allocation *failure* inside these functions is not part of C16 "
        "(they assert). H3LoopNorm.tla transcribes the antimeridian normalisation of the loop algorithms (bboxFrom, pointInside, "
        "isClockwise) and is replayed into the real functions (GeoLoop and LinkedGeoLoop). Found and fixed: vertex hash separated "
        "coinciding vertices at coarse resolutions. Open (KNOWN-FINDING, exit 0): sets with a hole whose outline crosses both "
        "the antimeridian and the prime meridian fail with E_FAILED (known_findings.json, DESIGN 11.3).",
        "DESIGN.md 3.9, 5/C16, 11"),
    "C07": (
        "TLC: set-level semantics of centre containment (H3Polygon.tla) + TLC trace validation of both fill algorithms against independent three-valued point-in-polygon observations, candidate set closed under the spec's neighbour graph + state-machine models of the hierarchical iterator, the bounding-box logic and the legacy flood fill",
        "H3Polygon.tla states what a centre-containment fill is in terms of sets of cells and per-cell observations; MC_Polygon "
        "shows the mode clauses are satisfiable for every observation assignment geometry allows and force nesting on clear "
        "cells. Every recorded (polygon, resolution) pair is validated by TLC (Trace_Poly.tla, WHICH=C07): polygonToCells and "
        "polygonToCellsExperimental(CENTER) both succeed, return duplicate-free valid cells of the resolution within "
        "maxPolygonToCellsSize / maxPolygonToCellsSizeExperimental, contain every candidate whose centre is clearly inside "
        "and none whose centre is clearly outside; the candidate set (raster of latLngToCell over the polygon and along its "
        "edges, 1-disks, all outputs; built independently of the fills) is checked by TLC to be closed under N at every "
        "inside cell. Inputs: 260 (4000) generated polygons: convex, concave stars, needles 1:20-1:500, smaller than a cell, up "
        "to 1500 (5000) cells, 1-3 holes, holes smaller than a cell, holes swallowing cells, outlines along cell edges; on all "
        "12 pentagons, the antimeridian, high latitudes, icosahedron edges, both hemispheres, both windings, res 0-15.",
        "'Centre inside the polygon' is a numeric projection (harness/vpoly.h: long double crossing number on loops unwrapped "
        "the short way round, ambiguity band 1e-11 rad; DESIGN 4.3/6); ambiguous centres are unconstrained. Blind spot: an "
        "inside cell in a connected piece of the inside set that neither the raster (0.55 edge lengths) nor any output touches.",
        "DESIGN.md 3.9, 5/C07, 11"),
    "C15": (
        "TLC: set-level semantics of the four containment modes + nesting (H3Polygon.tla, MC_Polygon) + TLC trace validation of all modes, capacity and flag errors against independent three-valued geometric observations + state-machine models of the hierarchical iterator and the bounding-box logic",
        "Same events as C07, judged with WHICH=C15: FULL only if centre and all vertices are (possibly) inside and always if the "
        "cell is clearly wholly interior; OVERLAPPING always if cell and polygon clearly share a point and never if clearly "
        "disjoint; FULL within CENTER within OVERLAPPING within OVERLAPPING_BBOX as sets; every mode duplicate-free, valid, "
        "within maxPolygonToCellsSizeExperimental; capacity count-1 / 0 -> E_MEMORY_BOUNDS with canaries intact and at most "
        "capacity slots written, capacity = count -> success; nine invalid flag words -> E_OPTION_INVALID from both "
        "functions with nothing written.",
        "The observations vin / wholly-interior / shares-a-point are numeric projections (harness/vpoly.h); the cell is taken "
        "with straight chords in the lat/lng plane and everything within the chord-vs-great-circle bulge of its boundary is "
        "ambiguous (unconstrained); cells containing a pole are excluded as the property says. Found and fixed: OVERLAPPING "
        "dropped a cell whose centre lies in a hole contained in the cell (known_findings.json).",
        "DESIGN.md 3.9, 5/C15, 11"),
    "C02": (
        "TLC: exact rational model of the planar hexagon rounding (nine branches + folding = nearest centre, all lattice points) + TLC trace validation of latLngToCell events (containment deviation, exactness via the neighbour graph)",
        "The planar rounding _hex2dToCoordIJK is transcribed into integer arithmetic in skew coordinates (H3Hex2d.tla) and TLC "
        "shows for every point of the 1/60 lattice over a 3x3 block of hexagons in all four quadrants that it returns, in "
        "ijk+ normal form, a hexagon centre of minimum distance (negative control: a threshold moved by 1/30 is rejected); "
        "the internal function is bound to the model by validating its results on 3x10^4 (8x10^5) exact lattice points. "
        "Every recorded latLngToCell call is validated by TLC (Trace_LL.tla): error contract (E_RES_DOMAIN, "
        "E_LATLNG_DOMAIN, no index), success + layout validity + resolution for every finite input, containment of the "
        "point in the returned cell's boundary polygon within max(2e-12, 4e-15/cos lat), and exactness: a point deeper "
        "inside a cell than tolerance + C08 slack must get exactly that cell, a point built next to a cell's boundary "
        "that cell or a neighbour in the spec's graph N. Inputs: 1.9x10^5 (1.5x10^6) points a fraction 1e-1..1e-12 from "
        "edges and corners (both sides) of all cells r<=1(2), pentagon disks, icosahedron-edge cells, pole / antimeridian "
        "cells, random cells at all 16 resolutions; bands 1e-9..3e-3 rad on both sides of all 30 icosahedron edges "
        "(midpoints, ends, random) at fine resolutions; the 12 vertices; poles and 0.12 degree caps; antimeridian, +-2pi "
        "rim; uniform points; arbitrary finite doubles; NaN/inf; bad resolutions.",
        "Containment and depth are numeric projections computed by the harness in long double (gnomonic chart at the "
        "cell centre, great-circle arc distances; DESIGN 4.3/6); TLC compares the resulting integers (1e-15 rad units) "
        "with the property's tolerance. Worst deviation measured on the pinned tree: 0.64 x tolerance.",
        "DESIGN.md 5/C02, 11"),
    "C01": (
        "TLC: exhaustive product-automaton model of the bit tricks (all 2^64 words) + TLC trace validation of isValidCell events",
        "The implementation's three word-parallel bit tricks are modelled as a ripple transducer over the 15 digit "
        "groups; TLC exhausts the product automaton (1.09M states, history hidden by a VIEW) and shows verdict == "
        "documented layout predicate for every 64-bit word. The code is bound to the model in both directions: TLC "
        "-simulate emits near-valid words that are replayed into isValidCell, and 10^5..2x10^6 random/mutated words "
        "plus every cell produced by 25 cell-returning API functions are validated event by event by TLC against "
        "ValidCell (trace spec Trace_C01). The same judgement is applied to the calls 8 threads make at the same time on their own uniform points (suite points-concurrent).",
        "Trusted: TLC, the hand transcription H3Validity.tla (bound by replay), ndjson 4-word encoding, the driver "
        "copying results. The closure clause is checked on the calls the drivers make (all suites log produced cells).",
        "DESIGN.md 3.2, 5/C01"),
    "C04": (
        "TLC: iterators.c state machine refines declarative children (exhaustive to depth 4/6) + TLC trace validation of hierarchy API events",
        "Reference semantics (H3Hierarchy.tla: children = valid digit extensions in index order, closed-form counts in "
        "BigNat) are checked against declarative sets by TLC; the child iterator of iterators.c is modelled as a state "
        "machine (H3ChildIter.tla) and TLC shows, for hexagon, pentagon and off-chain parents up to depth 4 (quick) / 6 "
        "(thorough), that it emits exactly the children in strictly increasing order, first the centre child, count = "
        "closed form, and terminates. Every recorded cellToParent / cellToChildrenSize / cellToCenterChild / "
        "cellToChildren call (pentagon disks, seams, random cells at all 16 resolutions, out-of-range resolutions, "
        "partition membership) is validated by TLC against the reference (Trace_Hier.tla).",
        "Trusted: TLC, ndjson encodings, driver. Centre-coincidence is a numeric observation (angle <= tolerance computed "
        "in double by the driver). Child lists deeper than 5 levels are validated on count + sampled positions.",
        "DESIGN.md 3.3, 5/C04"),
    "C13": (
        "TLC: Rank/Unrank digit-DP checked against iterator positions and declarative sets + TLC trace validation of childPos events",
        "Rank/Unrank are defined by a digit-DP independent of the code's loops; TLC checks they are a monotone "
        "bijection onto 0..count-1 on declarative children sets and that the position of every cell emitted by the "
        "iterator machine equals its Rank (depth <= 4/6). Recorded cellToChildPos / childPosToCell calls (all ancestor "
        "resolutions, depths 0..15, first/last/power-of-7/pentagon-width boundary/random/out-of-range positions incl. "
        "INT64 extremes, every leave-level under pentagons, bad resolutions) and complete cellToChildren lists are "
        "validated by TLC (BigNat arithmetic in TLA+).",
        "Trusted: TLC, ndjson encodings (base-16807 limbs), driver.",
        "DESIGN.md 3.3, 5/C13"),
    "C20": (
        "TLC: nibble transducer for format/parse (all 16^16 words) + TLC trace validation of h3ToString/stringToH3 events",
        "ToHex/FromHex are defined nibble-wise in TLA+ (H3Strings.tla); TLC exhausts the formatter's product automaton "
        "(leading-zero skipping, lower case, each character decodes to its nibble, length law) for all words. Recorded "
        "h3ToString calls with buffer sizes 0..32 (canaries, fill pattern), every bit position and leading-zero length, "
        "cells/edges/vertexes/mutated/random words, the stringToH3 round trip of every produced string and 3000..30000 "
        "arbitrary short byte strings are validated by TLC against the spec (Trace_C20.tla); so are the calls 8 threads make at the "
        "same time on their own buffers (20000 / 320000 words): the text of a value is independent of other callers.",
        "Trusted: TLC, driver, ndjson. Strings that start with white space / a sign or carry trailing text are "
        "unconstrained on success (the property does not speak about them).",
        "DESIGN.md 3.11, 5/C20"),
    "C05": (
        "TLC: whole-resolution neighbour graph as state space (r<=4/5) from a TLA+ transcription of h3NeighborRotations + TLC trace validation of all disk/ring calls against BFS + TLA+ transcription of both unsafe ring walks checked against BFS from every origin (k<=4; hollow rings to k=12 at r<=1)",
        "h3NeighborRotations is transcribed into TLA+ over the frozen design tables (H3Grid.tla); TLC explores the "
        "complete graph of resolutions 0..4 (thorough: 5) as a state space and checks degree 6/5, distinctness, "
        "symmetry, closure and the exact cell count 2+120*7^r. The reference semantics Disk/Ring/Dist = BFS on that "
        "graph. Model->code: every cell of the model graph r<=2 is replayed as origin of all nine functions (k<=2) and "
        "of areNeighborCells; code->model: pentagon disks, icosahedron-edge cells and random cells at r=3..15 (k<=5) and "
        "k up to 60 at r<=1; TLC validates each event: safe functions = exact BFS disk with exact distances, no "
        "duplicates, buffer = maxGridDiskSize; unsafe functions = error or disk in ring order / exact ring; "
        "areNeighborCells = membership in N.",
        "Trusted: TLC, the transcription (cross-checked by the whole-grid invariants and by every validated event), frozen "
        "tables, driver, ndjson.",
        "DESIGN.md 3.5, 5/C05"),
    "C10": (
        "TLC: edge-validity product automaton (all 2^64 words) + TLC trace validation of edge API events against the neighbour graph",
        "isValidDirectedEdge is modelled in the validity automaton (H3Validity.tla, kind=edge) and TLC shows it equals "
        "'mode 2, direction 1..6, not 1 on a pentagon, valid origin' for every 64-bit word. For every cell of the model "
        "graph r<=1 (thorough r<=2) and for pentagon-disk / icosahedron-edge / random cells at r=3..15 TLC validates: "
        "originToDirectedEdges lists exactly one valid edge per neighbour in N (null slot 0 on pentagons), origin and "
        "destination decode back, directedEdgeToCells agrees, cellsToDirectedEdge(origin, destination) reproduces the "
        "edge, non-neighbour / identical / cross-resolution pairs give E_NOT_NEIGHBORS with the output untouched, and "
        "isValidDirectedEdge on candidate words (every reserved value, wrong modes, high bit, mutations) equals the spec.",
        "Trusted: TLC, H3Grid transcription, frozen tables, driver. The geometric clauses are checked on vertex ids by "
        "Trace_Geo: directedEdgeToBoundary(a->b) = the stretch of a's boundary shared with b (2-3 points), reversed for "
        "the opposite edge; edgeLengthRads = summed great-circle arcs (rel 1e-7), Km/M scalings (numeric projection, DESIGN 6).",
        "DESIGN.md 3.8, 5/C10"),
    "C11": (
        "TLC trace validation of vertex API events against the triangle structure of the neighbour graph",
        "Corners of a cell are the triangles {c, n1, n2} of the reference graph (H3Grid.tla). For every cell of the model "
        "graph r<=1 (thorough r<=2) and strata cells at r=3..15, TLC validates the cellToVertexes outputs of the cell "
        "and of all its neighbours: 6 (5 + null slot) distinct mode-4 indexes over valid owners with in-range numbers; "
        "each triangle has exactly one index common to its three cells and it is owned by the lowest-index cell; these "
        "are all the cell's corners; neighbours share exactly two indexes, non-adjacent neighbours fewer; cellToVertex(i) "
        "= slot i and E_DOMAIN (output untouched) for numbers -2..8 outside the range; isValidVertex on candidate words "
        "(every reserved value over the cell, wrong mode, high bit, mutations, random) is true exactly for the canonical "
        "indexes listed by cellToVertexes of the owner.",
        "Trusted: TLC, H3Grid transcription, frozen tables, driver. The global count 2N-4 follows from the local triangle "
        "structure on complete resolutions. vertexToLatLng(slot i) = i-th topological corner of cellToBoundary is checked "
        "on vertex ids (1e-12 rad clustering) by Trace_Geo (numeric projection, DESIGN 6).",
        "DESIGN.md 3.8, 5/C11"),
    "C09": (
        "TLC trace validation of gridDistance / local IJ events against BFS distance on the TLA+ neighbour graph + TLA+ transcription of cellToLocalIjk / localIjkToCell checked against BFS distances from every origin r<=2(3)",
        "The reference distance is breadth-first search on the graph generated by the TLA+ transcription of the "
        "neighbour function (checked as a whole-resolution state space). TLC validates: every ordered pair of "
        "resolution 0, every target of resolution 1 from 60 (thorough: all 842) origins and of resolution 2 from 96 "
        "origins (thorough), pentagons first; at r=0..15 pentagon-disk / seam / random origins against their k<=4(6) "
        "disks in both directions (successful distance = BFS distance, symmetric when both succeed, 0 for a=b, 1 for "
        "neighbours, E_RES_MISMATCH); cellToLocalIj/localIjToCell mutual inverse where both succeed; localIjToCell "
        "returns only valid cells of the origin's resolution (IJ boxes and coordinates up to +-2^31); unit-step clause "
        "on pentagon-free disks.",
        "Trusted: TLC, H3Grid transcription, frozen tables, driver. Any chart satisfying the axioms is accepted.",
        "DESIGN.md 3.7, 5/C09"),
    "C14": (
        "TLC: exact rational model of the line drawing (H3Path: interpolation + cubeRound, contiguity for all endpoints within 9) bound to the code by model -> code replay + TLC trace validation of gridPathCells events: adjacency of consecutive cells in the TLA+ neighbour graph, announced size, frame condition",
        "H3Path.tla transcribes the interpolation in cube coordinates and cubeRound in exact rational arithmetic; MC_Path shows "
        "that the distance + 1 samples are lattice neighbours for every start within 1 and end within 9 (negative control "
        "rejected); 3.8x10^3 (3x10^4) real paths on pentagon-free patches equal the model's line sample by sample in local IJ "
        "coordinates (drift level, exact ties excepted). "
        "For pairs within k<=3(4) of all/sampled cells of r<=2, strata at all resolutions (pentagon disks, icosahedron edges, sparse "
        "digit strings, index sub-tree borders), class-stratified paths out of and lines across every pentagon base cell "
        "(500 (3000) per ordered pair of neighbouring base cells for the two polar pentagons, 200 (600) for the others), random and straight walks and "
        "long paths at r>=5, lines of thousands of cells at r=13..15, TLC validates each recorded call: size = gridDistance+1, first = a, last = b, all cells "
        "valid and of the same resolution, each a neighbour (set N of the reference graph) of its predecessor, nothing "
        "written beyond the announced size (sentinels), success for a=b and for neighbours.",
        "Trusted: TLC, H3Grid transcription, driver. Shortest-ness rests on size = gridDistance+1 together with C09.",
        "DESIGN.md 5/C14"),
    "C06": (
        "TLC: reference compaction checked canonical on all subsets of small universes + TLC trace validation of compact/uncompact events + one round of the hash-table algorithm as a state machine (all hashes, orders, multisets)",
        "Compact(S) is defined bottom-up on sets (H3Compact.tla) and, independently, canonical-ness is stated "
        "declaratively (valid, antichain, no complete sibling set, expands exactly to S); TLC checks the two agree for "
        "every S built from whole sibling groups plus a partial group under a pentagon base cell. Every recorded "
        "compactCells call (disks, sub-trees, sub-trees minus leaves, partial sibling groups, pentagon families at depth "
        "1-3(4), unions, pentagon disks, multi-round sets, globe pieces, sets up to 16807 (thorough 117k) cells; each set in "
        "sorted, reversed and shuffled order) is validated by TLC: result set is canonical for the input and equals the "
        "reference; uncompactCells reproduces S, respects the capacity (E_MEMORY_BOUNDS, sentinels, canaries) and rejects "
        "coarser targets (E_RES_MISMATCH); uncompactCellsSize = sum of closed-form child counts (BigNat). "
        "H3CompactAlgo.tla models one round of the hash/probe algorithm (3 parents, <= 9 cells, every hash function, order and "
        "multiset; thorough also 4 parents: 143.9M states); its collision scenarios (parents sharing a residue modulo the round's "
        "size, runs of slots, wrap-around at slots n-2 / n-1, pentagon parents in the chain) are realised with real cells and "
        "replayed into compactCells (model -> code).",
        "Trusted: TLC, driver, ndjson.",
        "DESIGN.md 3.4, 5/C06"),
    "C17": (
        "TLC: allocator contract on function-shaped control-flow models (all paths x fault plans) + TLC trace validation of every malloc/calloc/free under enumerated fault plans",
        "H3Alloc.tla states the allocator contract (live set, fault plan, balanced release, no double/foreign free, "
        "E_MEMORY_ALLOC reported, results equal to the default-allocator run). MC_Alloc.tla transcribes the "
        "allocation/release control flow of compactCells, gridDisk(Distances), areNeighborCells, polygonToCells and the "
        "experimental polyfill iterators and TLC explores every path under every plan (never / i-th only / from the "
        "i-th on); the pre-fix control flow is kept as a negative control that TLC must reject. The library is built "
        "with -DH3_ALLOC_PREFIX=verif_; for ~300 (thorough ~1500) scenarios the driver runs the fault-free call and then "
        "refuses the 1st, 2nd, ... last allocation (once / from there on); TLC validates every logged Alloc/Free/Return "
        "against the contract (Trace_Alloc.tla). Error exits that are not allocation failures are covered too (bad flags / "
        "resolution, duplicates, and an output-capacity sweep of polygonToCellsExperimental: every capacity from 0 up to the "
        "need, fills 2 and 3 levels below the polygon's cell so that E_MEMORY_BOUNDS is taken at every iterator position).",
        "Trusted: TLC, the logging shim, FNV digests for result identity. This check found the swallowed inner-gridDisk "
        "failure in areNeighborCells / polygonToCells (fixed in /repo commit 0aae22c7, see known_findings.json).",
        "DESIGN.md 3.10, 5/C17"),
    "C19": (
        "TLC: integer face-lattice model over complete grids (r<=2/3) + TLC trace validation of getIcosahedronFaces against Faces(h) and nearest-face witnesses",
        "H3FaceIJK.tla transcribes the face lattice (index <-> FaceIJK with overage, substrate vertices, the Class II "
        "pentagon redirection); TLC explores every cell of r<=2 (thorough r<=3) and checks |Faces| = 5 for pentagons and "
        "1-2 for hexagons, together with the integer round trip and lattice-adjacency = graph-adjacency that validate the "
        "transcription independently. Every cell of the model graph r<=2 and pentagon disks / all sampled cells along the "
        "30 icosahedron edges and their neighbours / random cells at r=0..15 are validated by TLC: slot count = "
        "maxFaceCount (2/5), distinct values 0..19 with -1 padding, reported set = Faces(h), and the geometric "
        "cross-observation (nearest face of interior sample points) in both directions.",
        "Trusted: TLC, the transcription, frozen tables and face centres; the nearest-face observation is a numeric "
        "projection with an ambiguity band of 1e-9.",
        "DESIGN.md 3.6, 5/C19"),
    "C08": (
        "TLC: integer vertex identity on the face lattice (exact tiling, r<=2/3) + TLC trace validation of boundary neighbourhoods on vertex ids and of BigNat area sums",
        "Exact form in the model: the substrate corners of adjacent cells coincide as integer points, every corner belongs "
        "to exactly three cells, neighbours share exactly two (MC_FaceIJK over complete grids r<=2, thorough 3). "
        "Executions: for every cell of the model graph r<=2(3), pentagon disks, cells along the 30 icosahedron edges and "
        "random cells at r=3..15 the driver projects cellToBoundary of the cell and of all its neighbours onto vertex ids "
        "(1e-12 rad clustering) and TLC validates: vertex count (6; 6-8 at odd r; 5/10 pentagon), no repeated point, "
        "counter-clockwise with the centre strictly inside, the set of neighbours = N(c), the stretch shared with each "
        "neighbour is contiguous (2-3 ids) and runs reversed in the neighbour, corners belong to 3 cells and distortion "
        "vertices to 2, area = independently computed spherical area, Km2/M2 scalings; a dense walk along all icosahedron "
        "edges validates the cell's own boundary (count, distinctness, orientation) for 2.7x10^5 (1.1x10^6) cells; the "
        "areas of ALL cells of r<=3 (4) are summed in BigNat by the trace spec: count = 2+120*7^r and sum = 4*pi within 1e-12 sr.",
        "Coordinates reach TLC through a trusted numeric projection (vertex ids, orientation signs, integer deviations; "
        "DESIGN 4.3/6); tolerances are fixed at >= 10x the worst deviation measured on the pinned tree.",
        "DESIGN.md 3.6, 5/C08"),
    "C18": (
        "TLC: interleaving model of threads/calls with a negative control + TLC trace validation of concurrent executions against the sequential reference; TSan reports are unconsumable events + cold-start executions with a hash baseline before the first library call",
        "H3Threads.tla: threads take Begin/End steps around calls; in the specified design no step writes library "
        "globals and every return equals the sequential result -- TLC explores all interleavings of 3 threads x 2 calls "
        "and must reject the variant with a library-owned scratch cell. Executions: a 48-call mixed workload is run "
        "sequentially (reference digests) and then on 2,3,4,8,16 barrier-started threads (5x10 rounds quick, 40x50 "
        "thorough) against libh3.so; TLC validates each logged return (digest = sequential digest, per-thread sequence "
        "numbers, hash of the library's writable segments unchanged). The same workload runs under ThreadSanitizer; a "
        "race report or a crash is an event the specification cannot consume.",
        "The no-shared-write clause is observed by TSan (sound for the schedules executed) and by sampling a hash of "
        "libh3.so's writable PT_LOAD segments; TLA+ decides equality with the sequential run and the frame condition.",
        "DESIGN.md 3.11, 5/C18"),
    "C12": (
        "TLC trace validation of calls to all exported functions against the error-code contract (H3Api.tla); aborts and sanitizer reports are unconsumable events",
        "H3Api.tla states, per entry point, the documented argument domains and the code an out-of-domain scalar must "
        "yield (E_RES_DOMAIN, E_LATLNG_DOMAIN, E_DOMAIN, E_OPTION_INVALID, E_RES_MISMATCH, E_MEMORY_BOUNDS), checked "
        "total/non-contradictory by TLC. A generic driver calls all ~70 exported functions (62 call shapes incl. short "
        "sequences feeding outputs forward) with random bits, valid cells with 1-3 mutations, wrong mode/reserved bits, "
        "planted 7 digits, deleted-subsequence cells, edges/vertexes, extreme ints, special doubles and malformed "
        "polygons, with guarded output buffers of exactly the documented size; 2x10^5 (thorough 3x10^6) calls in the "
        "-UNDEBUG build (assert/NEVER/ALWAYS live) and 4x10^4 (1.5x10^6) under ASan+UBSan. TLC validates every event: "
        "code in 0..15 and as documented, canaries intact, produced cells valid; an Abort or Crash event cannot be consumed.",
        "Memory safety and undefined behaviour are OBSERVED by ASan/UBSan and canaries, not decided by TLA+ (DESIGN 6). "
        "Buffer sizes are capped (k<=40, polygons <= ~20000 cells). This check found the empty-polygon / invalid-flags "
        "acceptance in maxPolygonToCellsSizeExperimental (fixed in /repo commit 2e250c4b).",
        "DESIGN.md 3.11, 5/C12"),
    "C03": (
        "TLC: cell counts by whole-resolution state-space exploration + integer round trip on the face lattice + TLC trace validation of centre round trips and enumerations",
        "The number of cells reachable in the TLA+ neighbour graph equals 2+120*7^r for r<=4 (thorough 5) and the BigNat "
        "count identity holds for all 16 resolutions; the integer core of the round trip FaceIjkToH3(H3ToFaceIjk(h)) = h "
        "holds for every cell of r<=2 (3). Recorded latLngToCell(cellToLatLng(h)) = h events are validated for every cell "
        "of r<=3 (thorough 5) with per-base-cell enumeration counts, pentagon disks, every cell along the 30 icosahedron "
        "edges (dense walk) and their neighbours and random cells up to r=15; getNumCells / getPentagons / getRes0Cells / "
        "res0CellCount / pentagonCount against the spec's counts and sets.",
        "Trusted: TLC, transcriptions + frozen tables, driver (the centre is fed back bit for bit).",
        "DESIGN.md 3.3/3.5/3.6, 5/C03"),
}

PENDING_REASON = "check not built yet in this round (work in progress; see DESIGN.md section 10 for the order of work)"


def main():
    props = [json.loads(l)["id"] for l in open(os.path.join(VERIF, "properties.jsonl")) if l.strip()]
    checks = []
    na = []
    for p in props:
        if p in CLAIMED:
            tech, text, note, ref = CLAIMED[p]
            checks.append(dict(
                property_id=p,
                quick_cmd="python3 tools/check.py %s quick" % p,
                thorough_cmd="python3 tools/check.py %s thorough" % p,
                evidence_file="/verif/evidence/%s.json" % p,
                replay_cmd_template="python3 tools/check.py --replay {path}",
                engine="tlc",
                level_claimed=dict(category=CATEGORY.get(p, "model_checking"), text=text, design_ref=ref),
                level_note=note + NOTE_EXTRA.get(p, ""),
                technique=tech))
        else:
            na.append(dict(property_id=p, reason=NA.get(p, PENDING_REASON)))
    man = dict(
        version=1,
        setup_cmd="python3 tools/setup.py",
        hooks=dict(guard="H3_VERIF",
                   enable="checks compile /repo/src/h3lib/lib/*.c themselves (tools/vlib.py build_lib) with -DH3_VERIF "
                          "plus the mode flags (dbg: -O1 -UNDEBUG; asan; tsan; alloc: -DH3_ALLOC_PREFIX=verif_); no source "
                          "hook exists so far, the guard is reserved",
                   baseline_off_cmd="cmake --build /repo/_build && ctest --test-dir /repo/_build -j8 --timeout 900",
                   source_commits=[], add_only=True),
        engines=[
            dict(name="tlc", path="/opt/veriftools/tla/tla2tools.jar", serves_properties=sorted(CLAIMED),
                 kind_free_text="TLC model checker: exhaustive / simulate runs of spec/*.tla and trace validation "
                                "(spec/Trace_*.tla) of ndjson traces recorded from the real library"),
            dict(name="harness", path="/verif/harness", serves_properties=sorted(CLAIMED),
                 kind_free_text="C drivers calling only the public API of the library built from /repo's working tree; "
                                "they log events, TLC judges them"),
        ],
        checks=checks,
        not_applicable=na,
        notes="All verdicts come from TLC on the TLA+ specification in /verif/spec; see DESIGN.md.")
    json.dump(man, open(os.path.join(VERIF, "MANIFEST.json"), "w"), indent=1)
    print("MANIFEST.json: %d claimed, %d not_applicable" % (len(checks), len(na)))


NA = {}
CATEGORY = {}
NOTE_EXTRA = {
    "C05": " Open known finding (known_findings.json, DESIGN 11.3): gridRingUnsafe returns a wrong ring with E_SUCCESS when the ring "
           "encloses >= 6 pentagons without touching one; the check prints two KNOWN-FINDING lines (executions and the design-level "
           "counterexample MC_GridUnsafeWrap_r1) and exits 0; any other wrong ring is a VIOLATION.",
    "C02": " Strata added by seeding rounds: bands either side of the 30 icosahedron edges, cells and edge points 1e-9..1e-2 rad round the 20 "
           "face centres, poles with the property's own tolerance kept exact beyond the integer cap. Found and fixed (fa8f377): "
           "acos(1 - sqd/2) cancelled next to the face centres and put points up to 1e-10 rad inside a res-13..15 cell into a neighbour.",
    "C03": " Every index isValidCell accepts among digit-tampered variants of sampled cells must round-trip as well.",
    "C09": " Table-entry coverage of the reverse unfolding: for every pentagon, neighbouring base cell and leading digit, every IJ "
           "coordinate of a box covering the pentagon's base cell at res 1..3, judged for inversion and compared with H3LocalIJ.",
    "C10": " The edge observations are also made by 8 threads at once; complete strips of cells along the icosahedron edges inside "
           "the pentagons' base cells at res 5.",
    "C11": " The vertex observations are also made by 8 threads at once; complete strips of cells along the icosahedron edges inside "
           "the pentagons' base cells at res 5 (topology and slot-i-is-corner-i geometry).",
    "C12": " A library call that writes outside a guarded buffer, aborts, or exceeds 120 s of CPU time is an Overrun / Abort / Hang event.",
    "C18": " A concurrent call that does not return within 300 s is a Hang event; calls 96..143 of the workload use cells on the "
           "antimeridian and next to the poles.",
    "C07": " Found and fixed: the legacy fill lost cells of thin polygons crossing the antimeridian (known_findings.json).",
    "C15": " Also found and fixed: FULL returned cells that only touch a polygon made from cell boundaries at a vertex.",
}

if __name__ == "__main__":
    main()
