#!/usr/bin/env python3
"""seed_prompt.py <round> [property ids...]
Writes /tmp/seedprompts/<id>-<round>.txt: the brief given to a fresh sub-agent that is to produce one seeded change for the
property.  The brief contains the text of the property (properties.jsonl), the build / test commands for the agent's own scratch
worktree /tmp/wt<round>-<id>, and one line per earlier round saying where that round's change was made (so that a different
mechanism is chosen).  Nothing else from /verif is shown to the agent."""
import json
import os
import sys

HERE = os.path.dirname(os.path.abspath(__file__))
VERIF = os.path.dirname(HERE)

TEMPLATE = """You are helping to evaluate a verification framework for the C library uber/h3 (hexagonal hierarchical geospatial grid). Your job is to craft ONE realistic, subtle change to the library that BREAKS the property below while the code still compiles and the repository's existing test suite still passes. This is mutation seeding for testing a checker; nothing you do is ever merged.

WORKSPACE: a scratch git worktree of the repository at {wt} (work ONLY there; never touch /repo or /verif, do not read anything under /verif). Build it with:
  cmake -G Ninja -S {wt} -B {wt}/_build -DCMAKE_BUILD_TYPE=RelWithDebInfo -DCMAKE_C_FLAGS=-Wno-error >/dev/null && cmake --build {wt}/_build -j4
and run the test suite with:
  ctest --test-dir {wt}/_build -j4 --timeout 900
(280 tests; all pass on the unmodified tree. No network is available.)

PROPERTY {pid}: {title}
Statement: {statement}
Quantified over: {quant}
Why the existing tests cannot settle it: {why}
Anchored in: {anchors}

WHAT TO PRODUCE
1. A change to the library sources (src/h3lib/lib or src/h3lib/include only; no test edits) that violates the property. It must look like something a developer could plausibly write (a refactor, an optimisation, a 'cleanup', an off-by-one, a wrong table entry, a swapped argument, two cooperating sites that each look fine alone). It must need something SPECIFIC to manifest: an unusual input class, a particular location on the globe (pentagon, icosahedron edge, pole, antimeridian), a particular resolution or size, a multi-step sequence, a particular allocation failing, a particular interleaving - NOT something ordinary use would expose at once. {earlier}
2. The full test suite must still pass (all 280) with your change. Verify this by actually running it.
3. A demonstration program {wt}/seed_out/demo.c: a small standalone C program using only the public API (#include "h3api.h"; it will be compiled as: cc -std=gnu11 -O1 -I<build>/src/h3lib/include -I<worktree>/src/h3lib/include demo.c <build>/lib/libh3.a -lm -lpthread) that exits 0 on the unmodified library and exits non-zero (printing what went wrong) on the modified one. It must decide the property by an independent argument (not by comparing against hard-coded outputs copied from the library unless they are obviously right). Verify both outcomes yourself.
4. Write {wt}/seed_out/patch.diff (output of `git -C {wt} diff -- src`), and {wt}/seed_out/meta.json with keys: summary (what was changed and why it breaks the property), needs_to_manifest (exactly what input/sequence/location is needed), files_changed (list), tests_run (command and result), demo_unmodified (exit code and output), demo_modified (exit code and output).
Leave the worktree with the change applied. Keep the change small (a few lines to a few dozen). Report briefly what you did.

IMPORTANT: other agents work in sibling worktrees of the same repository at the same time. NEVER use `git stash` (the stash is shared between worktrees and changes get swapped). To switch between the modified and the unmodified tree use: `git -C {wt} diff -- src > {wt}/seed_out/patch.diff; git -C {wt} checkout -- src` and later `git -C {wt} apply {wt}/seed_out/patch.diff`. Prefer a change whose effect is confined to an unusual region of the input space (a specific resolution range, a specific face / base cell / pentagon, a size threshold, a rarely taken branch) so that broad random testing would be unlikely to stumble on it.
"""


def main():
    rnd = sys.argv[1]
    props = {}
    for ln in open(os.path.join(VERIF, "properties.jsonl")):
        if ln.strip():
            d = json.loads(ln)
            props[d["id"]] = d
    ids = sys.argv[2:] or sorted(props)
    os.makedirs("/tmp/seedprompts", exist_ok=True)
    for pid in ids:
        p = props[pid]
        earlier = []
        for name in sorted(os.listdir(os.path.join(VERIF, "seeded"))):
            mp = os.path.join(VERIF, "seeded", name, "meta.json")
            if not os.path.exists(mp) or name.split("-")[0] != pid:
                continue
            m = json.load(open(mp))
            earlier.append("(%d) %s (%s)" % (len(earlier) + 1, ", ".join(m.get("files_changed", []))[:80], m.get("summary", "")[:140].replace("\n", " ")))
        etxt = ("Earlier rounds already produced changes in: " + "; ".join(earlier) +
                ". Choose a DIFFERENT mechanism and, if possible, a different file or function.") if earlier else ""
        a = p.get("anchors", {})
        anchors = ", ".join(a.get("files", [])) + "; mechanisms: " + "; ".join("%s @ %s" % (m["name"], m["where"]) for m in a.get("mechanism", []))
        wt = "/tmp/wt%s-%s" % (rnd, pid)
        txt = TEMPLATE.format(wt=wt, pid=pid, title=p["title"], statement=p["statement"], quant=p["quantifier"]["text"],
                              why=p["why_tests_cant"], anchors=anchors, earlier=etxt)
        out = "/tmp/seedprompts/%s-%s.txt" % (pid, rnd)
        open(out, "w").write(txt)
        print(out)


if __name__ == "__main__":
    main()
