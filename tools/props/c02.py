"""C02 - latLngToCell returns the cell whose boundary contains the point."""
import os
import vlib


def run(ck):
    q = ck.quick
    ck.mc("MC_Hex2d", "MC_Hex2d.cfg", workers=vlib.NCPU, xmx="8g",
          what="the planar rounding of _hex2dToCoordIJK (nine branches on the fractional parts in skew coordinates + axis folding + "
               "ijk normalisation) as exact rational arithmetic on a 1/60 lattice over all four quadrants: the result is the hexagon "
               "centre of minimum distance whenever that is unique, and one of the tied centres otherwise")
    neg = vlib.tlc("MC_Hex2d", "MC_Hex2d_neg.cfg", workers=4)
    if neg["verdict"] != "invariant":
        raise vlib.InfraError("negative control (rounding threshold moved by two lattice steps) was not rejected: %s" % neg["verdict"])
    ck.ev.notes.append("negative control: a rounding model with the 1/3 threshold moved by 1/30 violates RoundsToNearest, as expected")
    drv = vlib.build_driver("drv_ll", "rel")
    th = os.path.join(ck.tdir, "hex2d.ndjson")
    d = vlib.run_driver(drv, ["hex2d", ck.tier, ck.seed, th], timeout=3000)
    if d["rc"] != 0:
        raise vlib.InfraError("driver failed rc=%s %s" % (d["rc"], d["err"][-1500:]))
    if '"hex2dAbsent"' in open(th).readline():
        ck.ev.notes.append("MODEL-DRIFT: _hex2dToCoordIJK is no longer an external symbol; the model-conformance part was skipped")
    ck.trace("hex2d-lattice", "Trace_Hex2d", "Trace.cfg", th, nchunks=16 if q else 32, balance=True, timeout=3400,
             what="_hex2dToCoordIJK (internal, taken as a weak symbol) on exact lattice points: a block of hexagons on the 1/60 lattice in "
                  "all four quadrants and random points up to 2^20 hexagons from the origin on lattices 1/6..1/210: ijk+ normal form, a "
                  "nearest centre, equal to the transcription off the ties")
    t = os.path.join(ck.tdir, "ll.ndjson")
    d = vlib.run_driver(drv, ["run", ck.tier, ck.seed, t], timeout=3000)
    if d["rc"] != 0:
        raise vlib.InfraError("driver failed rc=%s %s" % (d["rc"], d["err"][-1500:]))
    ck.ev.notes.append("driver: " + d["err"].strip()[-200:])
    ck.trace("points", "Trace_LL", "Trace.cfg", t, nchunks=16 if q else 48, balance=True, timeout=3400,
             what="points a fraction 1e-1..1e-12 of the way from edges and corners towards the centre and the same distance outside, for "
                  "all cells r<=1 (thorough 2), pentagon disks, icosahedron-edge cells, pole and antimeridian cells and random cells at "
                  "every resolution (longitudes also named in +-2pi); points on / next to all 30 icosahedron edges and 12 vertices "
                  "(offsets 1e-16..1e-3 rad); poles and their 0.12 degree caps, the antimeridian, the +-2pi rim, the equator; uniform "
                  "points; arbitrary finite doubles; NaN / infinities; resolutions outside 0..15")
    tc = os.path.join(ck.tdir, "ll-threads.ndjson")
    d = vlib.run_driver(drv, ["threads", ck.tier, ck.seed, tc], timeout=3000)
    if d["rc"] != 0:
        raise vlib.InfraError("driver failed rc=%s %s" % (d["rc"], d["err"][-1500:]))
    ck.trace("points-concurrent", "Trace_LL", "Trace.cfg", tc, nchunks=16, balance=True, timeout=3400,
             what="8 threads indexing their own uniform points (all resolutions) at the same time: the cell of a point does not depend "
                  "on what other callers are doing")
    ck.ev.assumptions += ["TLC 1.8 / JVM", "H3Grid.tla transcription + frozen tables (neighbour sets)",
                          "numeric projection 'contains' (harness/vcontain.h, long double): distance from the point to the returned "
                          "cell's boundary polygon, inside-ness in the gnomonic chart at the cell centre; tolerance as stated in the "
                          "property; worst deviation measured on the pinned tree 0.64 x tolerance",
                          "exactness clause uses C08 (boundaries of adjacent cells coincide within 1e-12 rad)"]
