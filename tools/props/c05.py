"""C05 - gridDisk family equals breadth-first search on a symmetric neighbour graph."""
import os
import re
import vlib

NCELLS = {r: 2 + 120 * 7 ** r for r in range(16)}


def emit_cells(ck, rmax):
    """Explore the model's grid graph for r = 0..rmax (invariants + count) and return the cells as hex words."""
    words = []
    for r in range(rmax + 1):
        res = ck.mc("MC_Grid", "MC_Grid_emit_r%d.cfg" % r, what="grid of resolution %d as a state space: degree 6/5, distinct, "
                    "symmetric, closed; state count must be 2+120*7^r" % r, workers=vlib.NCPU, xmx="8g",
                    expect_distinct=NCELLS[r])
        for m in re.finditer(r'<<"CELL", <<(\d+), (\d+), (\d+), (\d+)>>>>', res["out"]):
            t, a, b, c = (int(x) for x in m.groups())
            words.append((t << 45) | (a << 30) | (b << 15) | c)
    return sorted(set(words))


def run(ck):
    q = ck.quick
    # 1. design level: the transcribed neighbour function generates the right graph
    cells = emit_cells(ck, 2)
    if len(cells) != sum(NCELLS[r] for r in range(3)):
        ck.violation(dict(kind="model-count", what="cells emitted by the model", got=len(cells)))
    ck.mc("MC_Grid", "MC_Grid_r3.cfg", what="grid r=3 invariants + count", workers=vlib.NCPU, xmx="8g", expect_distinct=NCELLS[3])
    ck.mc("MC_Grid", "MC_Grid_r4.cfg", what="grid r=4 invariants + count", workers=vlib.NCPU, xmx="12g", expect_distinct=NCELLS[4])
    if not q:
        ck.mc("MC_Grid", "MC_Grid_r5.cfg", what="grid r=5 invariants + count", workers=vlib.NCPU, xmx="24g",
              expect_distinct=NCELLS[5], timeout=3000)
    # 1b. the unsafe ring walks as functions of the neighbour step: "error or exactly the BFS disk / ring" from every origin
    for cfg, what in ((("MC_GridUnsafe_r0.cfg", "r=0, k<=4"), ("MC_GridUnsafe_r1.cfg", "r=1, k<=4"), ("MC_GridUnsafe_r2.cfg", "r=2, k<=3")) if q else
                      (("MC_GridUnsafe_r0.cfg", "r=0, k<=4"), ("MC_GridUnsafe_r1.cfg", "r=1, k<=4"), ("MC_GridUnsafe_r2_k4.cfg", "r=2, k<=4"),
                       ("MC_GridUnsafe_r3_k4.cfg", "r=3, k<=4"))):
        ck.mc("MC_GridUnsafe", cfg, workers=vlib.NCPU, xmx="12g", timeout=3400,
              what="gridDiskDistancesUnsafe / gridRingUnsafe transcribed (spiral walk with rotation bookkeeping, pentagon bail-outs, closure "
                   "test): from every origin, either an error or exactly the BFS disk in ring order with true distances / exactly the BFS "
                   "ring; " + what)
    for cfg, what in (("MC_GridUnsafeWrap_r0_ok.cfg", "r=0, k=5..12"), ("MC_GridUnsafeWrap_r1_ok.cfg", "r=1, k=5..11")):
        ck.mc("MC_GridUnsafeWrap", cfg, workers=vlib.NCPU, xmx="12g", timeout=3400,
              what="hollow rings that run round the globe, every origin: error or exactly the BFS ring; " + what)
    # the design-level counterexample of the known finding (rings enclosing >= 6 pentagons): reported as KNOWN-FINDING while it lasts
    ck.mc("MC_GridUnsafeWrap", "MC_GridUnsafeWrap_r1.cfg", workers=vlib.NCPU, xmx="12g", timeout=3400,
          what="hollow rings r=1, k=12 (encloses >= 6 pentagons): expected to violate RingClaim on the pinned design (known finding)")
    # 2. model -> code: every cell of the model's graph (r <= 2) as origin of all nine functions
    drv = vlib.build_driver("drv_grid", "dbg")
    wf = os.path.join(ck.tdir, "cells.txt")
    sel = cells if not q else [c for i, c in enumerate(cells) if ((c >> 52) & 15) < 2 or i % 4 == ck.seed % 4]
    open(wf, "w").write("\n".join("%x" % c for c in sel) + "\n")
    t1 = os.path.join(ck.tdir, "cells.ndjson")
    d = vlib.run_driver(drv, ["cells", wf, 2, t1])
    if d["rc"] != 0:
        raise vlib.InfraError("driver failed rc=%s %s" % (d["rc"], d["err"][-1500:]))
    ck.ev.extra["model_cells_replayed"] = len(sel)
    ck.trace("model-cells", "Trace_Grid", "Trace.cfg", t1, nchunks=16,
             what="all nine disk/ring functions + areNeighborCells for every cell of the model graph r<=2 (quick: all of r<=1, "
                  "a quarter of r=2), k<=2")
    # 3. code -> model: strata at r = 3..15, large k at r = 0,1
    t2 = os.path.join(ck.tdir, "strata.ndjson")
    d = vlib.run_driver(drv, ["strata", ck.tier, ck.seed, t2])
    if d["rc"] != 0:
        raise vlib.InfraError("driver failed rc=%s %s" % (d["rc"], d["err"][-1500:]))
    ck.trace("strata", "Trace_Grid", "Trace.cfg", t2, nchunks=16,
             what="pentagon k-disks, icosahedron-edge cells and random cells at r=3..15, k<=5; k up to 60 at r<=1")
    t3 = os.path.join(ck.tdir, "wrap.ndjson")
    d = vlib.run_driver(drv, ["wrap", ck.tier, ck.seed, t3])
    if d["rc"] != 0:
        raise vlib.InfraError("driver failed rc=%s %s" % (d["rc"], d["err"][-1500:]))
    ck.trace("ring-wrap", "Trace_Grid", "Trace.cfg", t3, nchunks=16, balance=True, max_rejections=100000, timeout=3400,
             what="gridRingUnsafe with k = 4..9 at r=0 and k = 9..14 at r=1 from (quick: a twelfth of) all origins: rings that enclose "
                  "several pentagons; each event carries the number of pentagons strictly inside the ring (wrapped = 6 or more); the "
                  "rejections with wrapped = 1 are the known finding, any other rejection is a violation")
    ck.ev.assumptions += ["TLC 1.8 / JVM", "hand transcription of h3NeighborRotations in H3Grid.tla (checked: whole-grid "
                          "invariants and counts; bound to the code by every validated event)",
                          "frozen design tables H3Tables.tla", "ndjson encodings"]
