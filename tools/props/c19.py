"""C19 - getIcosahedronFaces reports exactly the faces a cell touches."""
import os
import vlib
from props.c05 import emit_cells, NCELLS


def run(ck):
    q = ck.quick
    for r in ((0, 1, 2) if q else (0, 1, 2, 3)):
        ck.mc("MC_FaceIJK", "MC_FaceIJK_r%d.cfg" % r, workers=vlib.NCPU, xmx="12g", expect_distinct=NCELLS[r], timeout=3400,
              what="face lattice over the complete grid r=%d: integer round trip, lattice adjacency = graph adjacency, "
                   "|Faces| = 5 (pentagon) / 1-2 (hexagon), corners shared by exactly three cells" % r)
    cells = emit_cells(ck, 2)
    drv = vlib.build_driver("drv_faces", "dbg")
    wf = os.path.join(ck.tdir, "cells.txt")
    open(wf, "w").write("\n".join("%x" % c for c in cells) + "\n")
    t1 = os.path.join(ck.tdir, "cells.ndjson")
    d = vlib.run_driver(drv, ["cells", wf, t1])
    if d["rc"] != 0:
        raise vlib.InfraError("driver failed rc=%s %s" % (d["rc"], d["err"][-1500:]))
    ck.trace("model-cells", "Trace_Faces", "Trace.cfg", t1, nchunks=16, what="every cell of the model graph r<=2")
    t2 = os.path.join(ck.tdir, "strata.ndjson")
    d = vlib.run_driver(drv, ["strata", ck.tier, ck.seed, t2])
    if d["rc"] != 0:
        raise vlib.InfraError("driver failed rc=%s %s" % (d["rc"], d["err"][-1500:]))
    ck.trace("strata", "Trace_Faces", "Trace.cfg", t2, nchunks=16,
             what="pentagon disks, cells along the 30 icosahedron edges and their neighbours, random cells, r=0..15")
    t3 = os.path.join(ck.tdir, "threads.ndjson")
    d = vlib.run_driver(drv, ["threads", ck.tier, ck.seed, t3])
    if d["rc"] != 0:
        raise vlib.InfraError("driver failed rc=%s %s" % (d["rc"], d["err"][-1500:]))
    ck.trace("concurrent", "Trace_Faces", "Trace.cfg", t3, nchunks=16,
             what="8 threads asking at the same time for the faces of pentagons and their neighbours, cells along the icosahedron edges "
                  "and random cells, resolutions interleaved: the faces of a cell do not depend on what other callers are doing")
    ck.ev.assumptions += ["TLC 1.8 / JVM", "H3FaceIJK.tla transcription (checked against the digit-table graph and by round trip) "
                          "+ frozen tables", "geometric cross-observation: nearest of the 20 frozen face centres for interior sample "
                          "points (corners / edge points pulled 0.5..1e-3 towards the centre), ambiguity band 1e-9 (numeric "
                          "projection, DESIGN 6)"]
