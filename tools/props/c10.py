"""C10 - directed edges encode exactly the neighbour pairs (discrete part; boundary/length: see level_note)."""
import os
import vlib
from props.c05 import emit_cells


def topo(ck, which):
    q = ck.quick
    cells = emit_cells(ck, 1 if q else 2)
    drv = vlib.build_driver("drv_topo", "dbg")
    wf = os.path.join(ck.tdir, "cells.txt")
    open(wf, "w").write("\n".join("%x" % c for c in cells) + "\n")
    t1 = os.path.join(ck.tdir, "cells.ndjson")
    d = vlib.run_driver(drv, ["cells", wf, t1])
    if d["rc"] != 0:
        raise vlib.InfraError("driver failed rc=%s %s" % (d["rc"], d["err"][-1500:]))
    keep = {"C10": ("edgeNbhd", "cellsToEdge", "isValidEdge"), "C11": ("vertexNbhd", "isValidVertex")}[which]
    for src, name in ((t1, "model-cells"),):
        flt = src + "." + which
        with open(flt, "w") as f:
            for ln in open(src):
                if any('"e":"%s"' % k in ln for k in keep):
                    f.write(ln)
        ck.trace(name, "Trace_Grid", "Trace.cfg", flt, nchunks=16,
                 what="every cell of the model graph r<=%d" % (1 if q else 2))
    t2 = os.path.join(ck.tdir, "strata.ndjson")
    d = vlib.run_driver(drv, ["strata", ck.tier, ck.seed, t2])
    if d["rc"] != 0:
        raise vlib.InfraError("driver failed rc=%s %s" % (d["rc"], d["err"][-1500:]))
    flt = t2 + "." + which
    with open(flt, "w") as f:
        for ln in open(t2):
            if any('"e":"%s"' % k in ln for k in keep):
                f.write(ln)
    ck.trace("strata", "Trace_Grid", "Trace.cfg", flt, nchunks=16,
             what="pentagon disks, icosahedron-edge cells, random cells r=3..15; non-neighbour / cross-resolution pairs; "
                  "candidate words with every reserved value, wrong modes, mutations")
    t3 = os.path.join(ck.tdir, "threads.ndjson")
    d = vlib.run_driver(drv, ["threads", ck.tier, ck.seed, t3])
    if d["rc"] != 0:
        raise vlib.InfraError("driver failed rc=%s %s" % (d["rc"], d["err"][-1500:]))
    flt = t3 + "." + which
    with open(flt, "w") as f:
        for ln in open(t3):
            if any('"e":"%s"' % k in ln for k in keep):
                f.write(ln)
    ck.trace("concurrent", "Trace_Grid", "Trace.cfg", flt, nchunks=16,
             what="the same observations made by 8 threads at the same time on cells spread over the globe (pentagons, icosahedron "
                  "edges, random, every resolution)")
    ck.ev.assumptions += ["TLC 1.8 / JVM", "H3Grid.tla transcription + frozen tables", "ndjson encodings"]


def run(ck):
    ck.mc("H3Validity", "H3Validity_edge.cfg", what="isValidDirectedEdge == (mode 2, direction 1..6, not 1 on a pentagon, valid "
          "origin) for every 64-bit word (product automaton)", workers=vlib.NCPU, xmx="8g")
    topo(ck, "C10")
    from props.c08 import geo_trace
    geo_trace(ck, cells_rmax=1 if ck.quick else 2)       # directedEdgeToBoundary = shared stretch (reversed for the opposite edge), edgeLength*
