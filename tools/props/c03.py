"""C03 - cell <-> centre bijection and complete enumeration per resolution."""
import os
import vlib
from props.c05 import NCELLS


def run(ck):
    q = ck.quick
    ck.mc("MC_Hierarchy", "MC_Hierarchy.cfg", what="count identity 110*7^r + 12*PentWidth(r) = 2 + 120*7^r for r<=15 (BigNat)", xmx="4g")
    for r in ((0, 1, 2, 3, 4) if q else (0, 1, 2, 3, 4, 5)):
        ck.mc("MC_Grid", "MC_Grid_r%d.cfg" % r, workers=vlib.NCPU, xmx="24g" if r >= 5 else "12g", timeout=3400,
              expect_distinct=NCELLS[r], what="number of cells reachable in the neighbour graph of resolution %d = 2+120*7^r" % r)
    for r in ((0, 1, 2) if q else (0, 1, 2, 3)):
        ck.mc("MC_FaceIJK", "MC_FaceIJK_r%d.cfg" % r, workers=vlib.NCPU, xmx="12g", timeout=3400, expect_distinct=NCELLS[r],
              what="integer core of the round trip: FaceIjkToH3(H3ToFaceIjk(h)) = h for every cell of resolution %d" % r)
    dh = vlib.build_driver("drv_hier", "dbg")
    t0 = os.path.join(ck.tdir, "enum.ndjson")
    d = vlib.run_driver(dh, ["enum", t0])
    if d["rc"] != 0:
        raise vlib.InfraError("driver failed rc=%s %s" % (d["rc"], d["err"][-1500:]))
    ck.trace("enumeration", "Trace_Hier", "Trace.cfg", t0, nchunks=2,
             what="getNumCells / getPentagons (res -2..17), getRes0Cells, res0CellCount, pentagonCount")
    drv = vlib.build_driver("drv_c03", "rel")
    t = os.path.join(ck.tdir, "c03.ndjson")
    d = vlib.run_driver(drv, [ck.tier, ck.seed, t])
    if d["rc"] != 0:
        raise vlib.InfraError("driver failed rc=%s %s" % (d["rc"], d["err"][-1500:]))
    ck.trace("round-trip", "Trace_Hier", "Trace.cfg", t, nchunks=16,
             what="latLngToCell(cellToLatLng(h)) = h for every cell of r<=%d (per-base-cell counts = closed form), pentagon disks, "
                  "every cell along the 30 icosahedron edges (dense walk, complete up to r=%d) and their neighbours, random cells, "
                  "r<=15" % ((3, 6) if q else (5, 8)))
    ck.ev.assumptions += ["TLC 1.8 / JVM", "ndjson encodings", "the centre is fed back bit-for-bit (no projection involved)",
                          "H3Grid / H3FaceIJK transcriptions + frozen tables for the design-level counts and the integer round trip"]
