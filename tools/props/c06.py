"""C06 - compactCells / uncompactCells are lossless, canonical and order-independent."""
import os
import vlib


def run(ck):
    q = ck.quick
    ck.mc("MC_Compact", "MC_Compact.cfg" if q else "MC_Compact_full.cfg",
          what="reference Compact(S) is canonical (valid, antichain, no complete sibling set, expands exactly to S) for every "
               "S = union of whole sibling groups + one partial group among the grandchildren of a pentagon base cell",
          workers=4, xmx="8g")
    ck.mc("MC_CompactAlgo", "MC_CompactAlgo.cfg", workers=vlib.NCPU, xmx="12g", timeout=3000,
          what="one round of compactCells as a state machine over an abstract hash table: 3 parents (one pentagon), every multiset of up "
               "to 9 children, every hash function, every presentation order: probes terminate (NEVER branches unreachable), one slot per "
               "parent with the right count, the scan finds exactly the complete parents within the n/6 buffer, the lookup classifies "
               "every cell correctly")
    if not q:
        ck.mc("MC_CompactAlgo", "MC_CompactAlgo_deep.cfg", workers=vlib.NCPU, xmx="20g", timeout=3400,
              what="the same with 4 parents (one pentagon), up to 9 children, 2 spare slots: 143,873,783 distinct states when measured "
                   "(10 min on 8 workers)")
    neg = vlib.tlc("MC_CompactAlgo", "MC_CompactAlgo_neg.cfg", workers=vlib.NCPU, xmx="12g")
    if neg["verdict"] != "invariant":
        raise vlib.InfraError("negative control (probing modulo the allocated length) was not rejected: %s" % neg["verdict"])
    ck.ev.notes.append("negative control: probing modulo the allocated length instead of the round's size loses complete parents in the "
                       "model (ScanExact violated), as expected")
    drv = vlib.build_driver("drv_compact", "dbg")
    t = os.path.join(ck.tdir, "c06.ndjson")
    d = vlib.run_driver(drv, [ck.tier, ck.seed, t])
    if d["rc"] != 0:
        raise vlib.InfraError("driver failed rc=%s %s" % (d["rc"], d["err"][-1500:]))
    ck.trace("compact-calls", "Trace_Compact", "Trace.cfg", t, nchunks=16, balance=True, timeout=3400,
             what="disks, whole sub-trees (1-3 levels), sub-trees minus leaves, partial sibling groups, pentagon families at "
                  "depth 1-3(4), unions, pentagon disks, isolated cells, multi-round sets, globe pieces, large sets; model -> code "
                  "scenarios of H3CompactAlgo (2-5 parents whose indexes share a residue modulo the round's size, or fill a run of "
                  "slots, or sit at slots n-2 / n-1 so that probes wrap; complete and incomplete parents, pentagon parents); each in 3 "
                  "orders; uncompactCells with capacity n, n-1, n+3, 0, random and coarser resolution; uncompactCellsSize")
    ck.ev.assumptions += ["TLC 1.8 / JVM", "ndjson encodings", "the driver presents distinct valid same-resolution cells "
                          "(re-checked by the trace spec; other inputs are unconstrained)"]
