"""C18 - the library is re-entrant: concurrent calls equal sequential calls."""
import json
import os
import vlib


def run(ck):
    q = ck.quick
    ck.mc("H3Threads", "H3Threads.cfg", what="all interleavings of 3 threads x 2 calls in the specified design: every return equals the "
          "sequential result, library globals never written", workers=4)
    neg = vlib.tlc("H3Threads", "H3Threads_neg.cfg", workers=2)
    if neg["verdict"] != "invariant":
        raise vlib.InfraError("negative control (shared scratch cell) was not rejected: %s" % neg["verdict"])
    ck.ev.notes.append("negative control: a design with a library-owned scratch cell violates SequentialResults in the model, as expected")
    drv = vlib.build_driver_so("drv_threads")
    t = os.path.join(ck.tdir, "threads.ndjson")
    nexec, rounds = (5, 10) if q else (40, 50)
    hangs = 0

    def hung(path):
        return os.path.exists(path) and '"e":"Hang"' in open(path).read()[-400:]
    with open(t, "w") as out:
        for i in range(nexec):
            if hangs >= 2:
                ck.ev.notes.append("stopped starting executions after two that hung (each costs the 300 s join deadline)")
                break
            ti = os.path.join(ck.tdir, "exec%d.ndjson" % i)
            d = vlib.run_driver(drv, [rounds, ck.seed * 1000 + i, ti], timeout=1500)
            if d["rc"] != 0:
                out.write(open(ti).read() if os.path.exists(ti) else "")
                out.write(json.dumps({"e": "Crash", "how": "exit %s" % d["rc"], "stderr": d["err"][-800:]}) + "\n")
            else:
                out.write(open(ti).read())
            hangs += hung(ti)
            os.remove(ti)
        # cold starts: fresh processes whose very first library calls are concurrent (lazily initialised state, first-use races)
        reff = os.path.join(ck.tdir, "coldref.txt")
        d = vlib.run_driver(drv, ["ref", ck.seed, reff], timeout=600)
        if d["rc"] != 0:
            raise vlib.InfraError("reference run failed rc=%s %s" % (d["rc"], d["err"][-800:]))
        for i in range(12 if q else 200):
            if hangs >= 2:
                break
            ti = os.path.join(ck.tdir, "cold%d.ndjson" % i)
            d = vlib.run_driver(drv, ["cold", ck.seed * 1000 + i, reff, ti], timeout=600)
            if d["rc"] != 0:
                out.write(open(ti).read() if os.path.exists(ti) else "")
                out.write(json.dumps({"e": "Crash", "how": "exit %s" % d["rc"], "stderr": d["err"][-800:]}) + "\n")
            else:
                out.write(open(ti).read())
            hangs += hung(ti)
            if os.path.exists(ti):
                os.remove(ti)
    ck.trace("threads", "Trace_Threads", "Trace.cfg", t, nchunks=16, boundary=lambda ln: '"Start"' in ln,
             what="%d executions x %d rounds on T = 2,3,4,8,16 threads of a 96-call mixed workload (boundaries and areas incl. pentagons, "
                  "indexing, disks, children+compaction, both polyfills in all modes with and without a hole, multipolygons without / with one hole / with nested rings and several outer loops, unsafe rings and disks, uncompaction, paths, local IJ, directed edges, vertexes/edges, faces, "
                  "hierarchy positions, enumerations); each return digest vs the sequential reference, hash of libh3.so's writable "
                  "segments sampled every 8th call; plus %d cold-start processes (no library call before the hash baseline and the "
                  "release of 8 threads that walk the workload in lockstep, then once more sequentially)" % (nexec, rounds, 12 if q else 200))
    # ThreadSanitizer: the sound detector for the no-shared-write clause
    dts = vlib.build_driver("drv_threads", "tsan")
    t2 = os.path.join(ck.tdir, "tsan.ndjson")
    d = vlib.run_driver(dts, [3 if q else 60, ck.seed, t2, "nohash"], timeout=3000,
                        env={"TSAN_OPTIONS": "halt_on_error=0 exitcode=0 report_signal_unsafe=0"})
    races = d["err"].count("ThreadSanitizer: data race")
    if d["rc"] != 0 or races:
        with open(t2, "a") as f:
            f.write(json.dumps({"e": "Race", "reports": races, "rc": d["rc"], "stderr": d["err"][:3000]}) + "\n")
    ck.ev.extra["tsan_race_reports"] = races
    ck.trace("threads-tsan", "Trace_Threads", "Trace.cfg", t2, nchunks=1, boundary=lambda ln: '"Start"' in ln,
             what="the same workload in a ThreadSanitizer build; a race report becomes a Race event the specification cannot consume")
    ck.ev.assumptions += ["TLC 1.8 / JVM", "digest (FNV) of return code and output bytes per call", "the no-shared-write clause is observed by "
                          "ThreadSanitizer (sound for the executed schedules) and by hashing libh3.so's writable PT_LOAD segments "
                          "(dl_iterate_phdr; sampled, so transient writes can be missed) -- DESIGN 6",
                          "steps of different threads commute in the specification, so the per-thread logs are validated in any merge order"]
