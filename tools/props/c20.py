"""C20 - string form of an index round-trips exactly."""
import os
import vlib


def run(ck):
    ck.mc("H3StringsFmt", "H3StringsFmt.cfg", what="format/parse nibble transducer: every character decodes to its nibble, lower case, "
          "length = 16 - leading zero nibbles >= 1, for all 16^16 words (product automaton)", workers=4)
    drv = vlib.build_driver("drv_c20", "dbg")
    t = os.path.join(ck.tdir, "c20.ndjson")
    d = vlib.run_driver(drv, [ck.tier, ck.seed, t])
    if d["rc"] != 0:
        raise vlib.InfraError("driver failed rc=%s %s" % (d["rc"], d["err"][-1500:]))
    ck.trace("string-calls", "Trace_C20", "Trace.cfg", t,
             what="h3ToString with buffer sizes 0..32 (+guards), every bit position / leading-zero length, cells, edges, vertexes, "
                  "mutated and random words; stringToH3 round trips and arbitrary short byte strings")
    tc = os.path.join(ck.tdir, "c20-threads.ndjson")
    d = vlib.run_driver(drv, ["threads", ck.tier, ck.seed, tc])
    if d["rc"] != 0:
        raise vlib.InfraError("driver failed rc=%s %s" % (d["rc"], d["err"][-1500:]))
    ck.trace("string-concurrent", "Trace_C20", "Trace.cfg", tc, nchunks=16, balance=True,
             what="8 threads formatting and parsing back their own words (cells, short words, random words) into their own buffers at "
                  "the same time: the string of a value does not depend on what other callers are doing")
    ck.ev.assumptions += ["TLC 1.8 / JVM", "ndjson encodings", "strings whose first character is a sign, white space or that "
                          "carry trailing text are unconstrained on success (the property only speaks about text that does "
                          "not start with a hexadecimal number and about h3ToString output)"]
