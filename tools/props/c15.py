"""C15 - containment modes mean what they say, are nested, respect the size bound; capacity and flag errors."""
from props.c07 import poly_trace, poly_mc


def run(ck):
    poly_mc(ck)
    poly_trace(ck, "C15")
