"""C11 - vertex indexes are canonical (discrete part; vertexToLatLng: see level_note)."""
from props.c10 import topo


def run(ck):
    topo(ck, "C11")
