"""C11 - vertex indexes are canonical (discrete part; vertexToLatLng: see level_note)."""
from props.c10 import topo


def run(ck):
    topo(ck, "C11")
    from props.c08 import geo_trace
    geo_trace(ck, cells_rmax=1 if ck.quick else 2)       # vertexToLatLng(slot i) = i-th topological corner of cellToBoundary
