"""C13 - cellToChildPos / childPosToCell are inverse bijections in child order."""
import os
import vlib


def run(ck):
    q = ck.quick
    ck.mc("MC_Hierarchy", "MC_Hierarchy.cfg", what="Rank is a monotone bijection onto 0..count-1 with inverse Unrank "
          "(declarative children sets, depth <= 2, hexagon / pentagon / off-chain parents)", xmx="4g")
    ck.mc("MC_ChildIter", "MC_ChildIter.cfg" if q else "MC_ChildIter_deep.cfg",
          what="position of each iterated child == Rank, Unrank(position) == child, depth <= %d" % (4 if q else 6),
          workers=8, xmx="8g")
    drv = vlib.build_driver("drv_hier", "dbg")
    t = os.path.join(ck.tdir, "c13.ndjson")
    d = vlib.run_driver(drv, ["c13", ck.tier, ck.seed, t])
    if d["rc"] != 0:
        raise vlib.InfraError("driver failed rc=%s %s" % (d["rc"], d["err"][-1500:]))
    ck.trace("childpos-calls", "Trace_Hier", "Trace.cfg", t,
             what="cellToChildPos for every ancestor resolution; childPosToCell at first/last/boundary/random/out-of-range "
                  "positions for depths 0..15; leave-level strata under all pentagons; error contract", nchunks=16)
    # the i-th element of cellToChildren has position i: checked on complete child lists (Rank(o[i]) = i-1)
    t2 = os.path.join(ck.tdir, "c04.ndjson")
    d = vlib.run_driver(drv, ["c04", "quick", ck.seed + 1, t2])
    if d["rc"] != 0:
        raise vlib.InfraError("driver failed rc=%s %s" % (d["rc"], d["err"][-1500:]))
    ck.trace("children-order", "Trace_Hier", "Trace.cfg", t2,
             what="complete cellToChildren lists: Rank(o[i]) = i-1", nchunks=16)
    ck.ev.assumptions += ["TLC 1.8 / JVM", "ndjson encodings (4-word indexes, base-16807 limbs for int64)"]
