"""C04 - parent/children form an exact tree partition."""
import os
import vlib


def run(ck):
    q = ck.quick
    ck.mc("MC_Hierarchy", "MC_Hierarchy.cfg", what="closed-form counts == cardinality of declarative children sets; "
          "count identity r<=15; Rank/Unrank bijection; children of children partition grandchildren", xmx="4g")
    ck.mc("MC_ChildIter", "MC_ChildIter.cfg" if q else "MC_ChildIter_deep.cfg",
          what="iterators.c state machine refines reference children (order, validity, parent, count, rank, "
               "termination) for hexagon/pentagon/off-chain parents, depth <= %d" % (4 if q else 6),
          workers=8, xmx="8g")
    drv = vlib.build_driver("drv_hier", "dbg")
    t = os.path.join(ck.tdir, "c04.ndjson")
    d = vlib.run_driver(drv, ["c04", ck.tier, ck.seed, t])
    if d["rc"] != 0:
        raise vlib.InfraError("driver failed rc=%s %s" % (d["rc"], d["err"][-1500:]))
    ck.trace("hierarchy-calls", "Trace_Hier", "Trace.cfg", t,
             what="cellToParent/ChildrenSize/CenterChild/Children on pentagon disks, seams and random cells at all 16 "
                  "resolutions, error-contract resolutions, partition membership", nchunks=16)
    ck.ev.assumptions += ["TLC 1.8 / JVM", "ndjson encodings (4-word indexes, base-16807 limbs for int64)",
                          "centre-coincidence clause: angle and tolerance max(2e-12, 4e-15/cos lat) are computed by the "
                          "driver in double arithmetic (numeric projection, DESIGN 6)",
                          "cellToChildren outputs for depth >= 5 are validated on count + sampled positions (Unrank)"]
