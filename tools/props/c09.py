"""C09 - gridDistance is the true graph distance; local IJ is a consistent partial chart."""
import os
import vlib
from props.c05 import NCELLS


def drv_run(ck, drv, args, out):
    d = vlib.run_driver(drv, args + [out])
    if d["rc"] != 0:
        raise vlib.InfraError("driver failed rc=%s %s" % (d["rc"], d["err"][-1500:]))


def run(ck):
    q = ck.quick
    for r in (0, 1, 2):
        ck.mc("MC_Grid", "MC_Grid_r%d.cfg" % r, what="reference graph of resolution %d (degree, symmetry, closure, count)" % r,
              workers=vlib.NCPU, xmx="8g", expect_distinct=NCELLS[r])
    for r in ((0, 1, 2) if q else (0, 1, 2, 3)):
        ck.mc("MC_LocalIJ", "MC_LocalIJ_r%d.cfg" % r, workers=vlib.NCPU, xmx="12g", timeout=3400, expect_distinct=NCELLS[r],
              what="cellToLocalIjk / localIjkToCell transcribed (five pentagon tables frozen): from every origin of resolution %d to "
                   "every target within %d steps: a successful distance is the BFS distance, the chart is invertible where defined, "
                   "symmetric when both directions succeed, 0 to itself, 1 to every neighbour" % (r, 3 if r >= 2 else 4))
    drv = vlib.build_driver("drv_dist", "dbg")
    t0 = os.path.join(ck.tdir, "all0.ndjson")
    drv_run(ck, drv, ["all", 0, 0, ck.seed], t0)
    ck.trace("all-pairs-r0", "Trace_Grid", "Trace.cfg", t0, nchunks=16, what="every ordered pair of resolution 0 against BFS")
    t1 = os.path.join(ck.tdir, "all1.ndjson")
    drv_run(ck, drv, ["all", 1, 60 if q else 0, ck.seed], t1)
    ck.trace("all-targets-r1", "Trace_Grid", "Trace.cfg", t1, nchunks=16,
             what="every target of resolution 1 from %s origins (12 pentagons first) against BFS" % ("60" if q else "all 842"))
    if not q:
        t2 = os.path.join(ck.tdir, "all2.ndjson")
        drv_run(ck, drv, ["all", 2, 96, ck.seed], t2)
        ck.trace("all-targets-r2", "Trace_Grid", "Trace.cfg", t2, nchunks=16, timeout=3400,
                 what="every target of resolution 2 from 96 origins (12 pentagons first) against BFS")
    t3 = os.path.join(ck.tdir, "c09.ndjson")
    drv_run(ck, drv, ["c09", ck.tier, ck.seed], t3)
    ck.trace("strata", "Trace_Grid", "Trace.cfg", t3, nchunks=16, balance=True,
             what="origins inside every pentagon base cell (each leading digit) against far targets up to 8/16/24/40 steps "
                  "at r=1..5(8) (one BFS per origin); pentagon disks / seam / random origins at r=0..15 against their k<=4(6) disks in both directions, "
                  "cellToLocalIj<->localIjToCell round trips, IJ boxes, coordinates up to +-2^31, unit-step chart clause, "
                  "E_RES_MISMATCH pairs")
    t4 = t3 + ".localij"
    with open(t4, "w") as f:
        for ln in open(t3):
            if '"e":"localIj"' in ln or '"e":"ijToCell"' in ln:
                f.write(ln)
    ck.trace("localij-conformance", "Trace_LocalIJ", "Trace.cfg", t4, nchunks=16, balance=True, drift=True,
             what="the recorded cellToLocalIj / localIjToCell calls against the transcription H3LocalIJ: same outcome class, same "
                  "coordinates, same cell")
    ck.ev.assumptions += ["TLC 1.8 / JVM", "H3Grid.tla transcription + frozen tables", "ndjson encodings",
                          "any chart satisfying the axioms is accepted (the API promises no particular coordinates)"]
