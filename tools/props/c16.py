"""C16 - cellsToLinkedMultiPolygon outlines exactly the union of the cells; destroy / error paths leave nothing allocated."""
import os
import vlib


def run(ck):
    for cfg, what in (("MC_LinkedGeo.cfg", "pentagon base cell 14, sets of <= 4 cells of its 2-disk"),
                      ("MC_LinkedGeo_hex.cfg", "hexagon base cell 20, sets of <= 3 cells of its 2-disk")) + \
            ((("MC_LinkedGeo_deep.cfg", "pentagon base cell 14, sets of <= 6 cells"),) if not ck.quick else ()):
        ck.mc("MC_LinkedGeo", cfg, workers=4, xmx="8g", timeout=3400,
              what="outline semantics on the model's own graph at r=0 (whole sphere, corners = triangles of the neighbour graph): every "
                   "corner meets 0 or 2 boundary edges, #cycles = components(S) + components(complement) - 1, the inner side of each "
                   "cycle lies in one component; " + what)
    ck.mc("MC_VertexGraph", "MC_VertexGraph.cfg", workers=8, xmx="8g",
          what="edge-cancellation graph of h3SetToVertexGraph as a state machine: arbitrary base hash values, the two cells' copies of a "
               "shared vertex may hash to adjacent values, arbitrary bucket collisions: with the lookup over value, value+1, value-1 the "
               "stored edges are exactly the outline")
    neg = vlib.tlc("MC_VertexGraph", "MC_VertexGraph_prefix.cfg", workers=8)
    if neg["verdict"] != "invariant":
        raise vlib.InfraError("negative control (own-bucket lookup, the design before the fix) was not rejected: %s" % neg["verdict"])
    ck.ev.notes.append("negative control: the vertex-graph model with the own-bucket-only lookup (the defect fixed in /repo 0b215137) "
                       "violates OutlineExact, as expected")
    dvg = vlib.build_driver("drv_vgraph", "dbg", internal=True)
    tv = os.path.join(ck.tdir, "vgraph.ndjson")
    d = vlib.run_driver(dvg, ["run", ck.tier, ck.seed, tv], timeout=1200)
    if d["rc"] != 0:
        raise vlib.InfraError("driver failed rc=%s %s" % (d["rc"], d["err"][-1500:]))
    if '"vgraphAbsent"' in open(tv).readline():
        ck.ev.notes.append("MODEL-DRIFT: vertexGraph.h is gone; the model -> code replay of H3VertexGraph was skipped")
    ck.trace("vgraph-replay", "Trace_VGraph", "Trace.cfg", tv, nchunks=16, balance=True,
             what="model -> code: scenarios of the vertex-graph model (2-3 synthetic cells sharing edges, bucket counts 2..24, base hash "
                  "values concentrated on multiples of the bucket count, copies of a shared vertex 2e-12 rad apart across a hash "
                  "boundary, random processing order) replayed into the real vertexGraph.c primitives; the edges left must be the outline")
    # the loop algorithms' antimeridian normalisation (bboxFrom / pointInside / isClockwise of polygonAlgos.h)
    ck.mc("MC_LoopNorm", "MC_LoopNorm.cfg", workers=4,
          what="rectangle loops on a 15-degree longitude grid that do not cover both the antimeridian and the prime meridian: the "
               "transcribed bounding box, ray casting with 'negative + 2 pi' normalisation and winding sum agree with the reference "
               "(point in the arc; counter-clockwise) at every test point")
    ck.mc("MC_LoopNorm", "MC_LoopNorm_exact.cfg", workers=4,
          what="all rectangle loops: the transcription disagrees with the reference exactly for the loops across both meridians")
    ck.mc("MC_LoopNorm", "MC_LoopNorm_both.cfg", workers=4,
          what="all rectangle loops: expected to violate InsideOK on the pinned design (known finding: a loop across both meridians is "
               "torn apart at longitude 0)")
    dln = vlib.build_driver("drv_loopnorm", "dbg", internal=True)
    tl = os.path.join(ck.tdir, "loopnorm.ndjson")
    d = vlib.run_driver(dln, ["run", ck.tier, ck.seed, tl], timeout=600)
    if d["rc"] != 0:
        raise vlib.InfraError("driver failed rc=%s %s" % (d["rc"], d["err"][-1500:]))
    if '"loopNormAbsent"' in open(tl).readline():
        ck.ev.notes.append("MODEL-DRIFT: the loop algorithms (polygon.h / linkedGeo.h) are gone; the model -> code replay of H3LoopNorm was skipped")
    ck.trace("loopnorm-impl", "Trace_LoopNorm", "Trace_LoopNorm_impl.cfg", tl, nchunks=8, drift=True,
             what="model -> code: every rectangle loop of the 10-degree grid as GeoLoop and as LinkedGeoLoop through the real bboxFrom*, "
                  "pointInside* (18 test points), isClockwise* (loop and reverse): the code does what the transcription does")
    ck.trace("loopnorm-ref", "Trace_LoopNorm", "Trace_LoopNorm_ref.cfg", tl, nchunks=8, max_rejections=100000,
             what="the same observations against the reference semantics; the loops across both meridians are the known finding")
    drv = vlib.build_driver("drv_lmp", "alloc")
    t = os.path.join(ck.tdir, "lmp.ndjson")
    d = vlib.run_driver(drv, ["run", ck.tier, ck.seed, t], timeout=3000)
    if d["rc"] != 0:
        raise vlib.InfraError("driver failed rc=%s %s" % (d["rc"], d["err"][-1500:]))
    ck.ev.extra["sets"] = sum(1 for ln in open(t) if '"e":"lmp"' in ln)
    ck.trace("cell-sets", "Trace_LMP", "Trace.cfg", t, nchunks=16 if ck.quick else 48, boundary=lambda ln: '"Reset"' in ln, timeout=3400, max_rejections=100000,
             what="belts up to 340 degrees wide at res 0..2 (3) with holes, centred on the prime meridian, the antimeridian and at random "
                  "(the last kind contains the known finding: outline across both meridians); "
                  "disks, disks minus random cells (holes, islands), rings, rings with an island, sparse sets (many components), whole "
                  "sub-trees, grid paths, single / few cells; around all pentagons, next to them, on the antimeridian, on icosahedron "
                  "edges (distortion vertices), random; every resolution 0..15, shuffled order; error paths (H3_NULL / invalid cell "
                  "inside the set, all base cells minus two); every malloc / calloc / free the library makes is a trace event")
    ck.ev.assumptions += ["TLC 1.8 / JVM", "H3Grid.tla transcription + frozen tables (components)",
                          "numeric projections: vertex ids by 1e-12 rad clustering (C08), orientation sign and areas by a signed "
                          "spherical fan in long double, areas rounded to 1e-4 of the mean cell area of the set",
                          "the shim in harness/drv_lmp.c logs every call the library makes through the H3_ALLOC_PREFIX seam",
                          "domain: sets whose boundary vertices stay below 83 degrees of latitude and within 1 rad of their mean "
                          "direction (the property excludes footprints reaching a pole); other inputs are judged on the allocator contract only"]
