"""C07 - polygonToCells / polygonToCellsExperimental(CENTER) return exactly the cells whose centre is inside the polygon."""
import os
import vlib


def poly_trace(ck, which):
    drv = vlib.build_driver("drv_poly", "dbg")
    t = os.path.join(ck.tdir, "poly.ndjson")
    d = vlib.run_driver(drv, ["run", ck.tier, ck.seed, t], timeout=3000)
    if d["rc"] != 0:
        raise vlib.InfraError("driver failed rc=%s %s" % (d["rc"], d["err"][-1500:]))
    ck.ev.notes.append("driver: " + d["err"].strip()[-200:])
    if which == "C07":
        # the legacy fill is judged in a suite of its own, so that a finding about one algorithm can never hide a violation of the
        # other on the same polygon (it had one: cells lost on needles across the antimeridian, fixed in /repo)
        tl = t + ".fill"
        with open(tl, "w") as f:
            for ln in open(t):
                if '"e":"polyfill"' in ln:
                    f.write(ln)
        ck.trace("polygons-legacy", "Trace_Poly", "Trace.cfg", tl, nchunks=16 if ck.quick else 48, balance=True, env={"WHICH": "C07L"},
                 timeout=3400, max_rejections=100000,
                 what="polygonToCells (legacy edge-trace + flood fill) on the polygons described under 'polygons'")
        tn = os.path.join(ck.tdir, "needles.ndjson")
        d = vlib.run_driver(drv, ["needles", ck.tier, ck.seed, tn], timeout=3000)
        if d["rc"] != 0:
            raise vlib.InfraError("driver failed rc=%s %s" % (d["rc"], d["err"][-1500:]))
        ck.trace("needles", "Trace_Poly", "Trace.cfg", tn, nchunks=16 if ck.quick else 48, balance=True, env={"WHICH": "C07"}, timeout=3400,
                 what="needle-thin polygons only (aspect 1:20..1:500, 4-8 vertices, all placements incl. the antimeridian), both centre fills")
        ck.trace("iterator-order", "Trace_Poly", "Trace.cfg", tl, nchunks=16, balance=True, env={"WHICH": "ORDER"}, timeout=3400, drift=True,
                 what="output order of polygonToCellsExperimental in all four modes against the iterator model H3PolyIter (strictly "
                      "increasing index order)")
        which = "C07E"
    ck.trace("polygons", "Trace_Poly", "Trace.cfg", t, nchunks=16 if ck.quick else 48, balance=True, env={"WHICH": which}, timeout=3400,
             what="generated well-formed polygons x resolutions 0..15: convex, star-shaped concave, needles (aspect 1:20..1:500), smaller "
                  "than a cell, up to ~1500 (thorough ~5000) cells, 1-3 holes, a hole smaller than a cell on a cell centre, holes "
                  "swallowing whole cells, outlines that run exactly along cell edges; centred on all 12 pentagons, on the antimeridian, "
                  "at high latitudes, between icosahedron vertices and at random places in both hemispheres, either winding; all "
                  "five fills + five size bounds per polygon; candidates = raster + edge walk + 1-disks + all outputs")
    tb = os.path.join(ck.tdir, "bbox.ndjson")
    d = vlib.run_driver(drv, ["bbox", ck.tier, ck.seed, tb], timeout=600)
    if d["rc"] != 0:
        raise vlib.InfraError("driver failed rc=%s %s" % (d["rc"], d["err"][-1500:]))
    if '"bboxAbsent"' in open(tb).readline():
        ck.ev.notes.append("MODEL-DRIFT: the bbox functions are no longer external symbols; the model-conformance part was skipped")
    ck.trace("bbox-grid", "Trace_BBox", "Trace.cfg", tb, nchunks=16, balance=True,
             what="bboxOverlapsBBox (both orders), bboxContainsBBox, bboxContains (internal, weak symbols) on random pairs of boxes of a "
                  "15-degree grid, plain and transmeridian, against the set-of-points semantics of H3BBox.tla")
    ck.ev.assumptions += ["TLC 1.8 / JVM", "H3Grid.tla transcription + frozen tables (closure of the candidate set under N)",
                          "numeric projection harness/vpoly.h (long double planar lat/lng geometry, loops unwrapped the short way round; "
                          "ambiguity band 1e-11 rad for points, the chord-vs-great-circle bulge of each cell for shapes); ambiguous "
                          "observations constrain nothing; cells containing a pole are excluded"]


def poly_mc(ck):
    ck.mc("MC_Polygon", "MC_Polygon.cfg", workers=8,
          what="set algebra of the containment modes on an abstract universe: any assignment of observations consistent with geometry "
               "(wholly interior => vertices and centre inside => shares a point) admits fills satisfying all mode clauses, and the "
               "clauses force the nesting FULL <= CENTER <= OVERLAPPING on unambiguous cells")
    ck.mc("MC_BBox", "MC_BBox.cfg", workers=vlib.NCPU, xmx="8g",
          what="bbox.c antimeridian logic (bboxNormalization / normalizeLng, bboxContains, bboxOverlapsBBox, bboxContainsBBox) == "
               "set-of-grid-points semantics for every pair of boxes narrower than half the globe on a 30-degree grid, plain and "
               "transmeridian (1.3x10^5 pairs)")
    ck.mc("MC_PolyIter", "MC_PolyIter.cfg", workers=vlib.NCPU, xmx="8g",
          what="iterStepPolygonCompact + nextCell as a state machine over an abstract polygon (pentagon + hexagon base cell, target "
               "resolution 1, every oracle satisfying bbox covering / containment soundness): terminates, emits in increasing index "
               "order without nesting or duplicates, expands to exactly the cells passing the leaf test")
    if not ck.quick:
        ck.mc("MC_PolyIter2", "MC_PolyIter2.cfg", workers=vlib.NCPU, xmx="24g", timeout=3400,
              what="the same machine at target resolution 2 under a pentagon base cell (41 target cells): nextCell carries over two "
                   "levels and skips the deleted child of the pentagon and of its centre child; 5 leaf patterns per resolution-1 cell, "
                   "loosest / tightest bounding-box answers")
    neg = vlib.tlc("MC_PolyIter", "MC_PolyIter_nocover.cfg", workers=8)
    if neg["verdict"] != "invariant":
        raise vlib.InfraError("negative control (bounding boxes that do not cover the children) was not rejected: %s" % neg["verdict"])
    ck.ev.notes.append("negative control: without the covering guarantee of cellToBBox the iterator model violates Exact, as expected")


def run(ck):
    poly_mc(ck)
    ck.mc("MC_FloodFill", "MC_FloodFill.cfg" if ck.quick else "MC_FloodFill_deep.cfg", workers=vlib.NCPU, xmx="16g", timeout=3400,
          what="the legacy fill (edge trace + neighbour flood) as a state machine on the 2-disk of a pentagon at r=1: for every inside set "
               "of <= %d cells and every trace of <= 2 cells it terminates, returns nothing outside, and returns exactly the components of "
               "the inside set within one step of the trace - exact iff the trace reaches every component" % (3 if ck.quick else 4))
    neg = vlib.tlc("MC_FloodFill", "MC_FloodFill_neg.cfg", workers=vlib.NCPU, xmx="8g")
    if neg["verdict"] != "invariant":
        raise vlib.InfraError("negative control (fill exact without the trace precondition) was not rejected: %s" % neg["verdict"])
    ck.ev.notes.append("negative control: without the trace precondition the flood-fill model loses inside cells (as the antimeridian defect did)")
    poly_trace(ck, "C07")
