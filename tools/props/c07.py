"""C07 - polygonToCells / polygonToCellsExperimental(CENTER) return exactly the cells whose centre is inside the polygon."""
import os
import vlib


def poly_trace(ck, which):
    drv = vlib.build_driver("drv_poly", "dbg")
    t = os.path.join(ck.tdir, "poly.ndjson")
    d = vlib.run_driver(drv, ["run", ck.tier, ck.seed, t], timeout=3000)
    if d["rc"] != 0:
        raise vlib.InfraError("driver failed rc=%s %s" % (d["rc"], d["err"][-1500:]))
    ck.ev.notes.append("driver: " + d["err"].strip()[-200:])
    ck.trace("polygons", "Trace_Poly", "Trace.cfg", t, nchunks=16 if ck.quick else 48, balance=True, env={"WHICH": which}, timeout=3400,
             what="generated well-formed polygons x resolutions 0..15: convex, star-shaped concave, needles (aspect 1:20..1:500), smaller "
                  "than a cell, up to ~1500 (thorough ~5000) cells, 1-3 holes, a hole smaller than a cell on a cell centre, holes "
                  "swallowing whole cells, outlines that run exactly along cell edges; centred on all 12 pentagons, on the antimeridian, "
                  "at high latitudes, between icosahedron vertices and at random places in both hemispheres, either winding; all "
                  "five fills + five size bounds per polygon; candidates = raster + edge walk + 1-disks + all outputs")
    ck.ev.assumptions += ["TLC 1.8 / JVM", "H3Grid.tla transcription + frozen tables (closure of the candidate set under N)",
                          "numeric projection harness/vpoly.h (long double planar lat/lng geometry, loops unwrapped the short way round; "
                          "ambiguity band 1e-11 rad for points, the chord-vs-great-circle bulge of each cell for shapes); ambiguous "
                          "observations constrain nothing; cells containing a pole are excluded"]


def poly_mc(ck):
    ck.mc("MC_Polygon", "MC_Polygon.cfg", workers=8,
          what="set algebra of the containment modes on an abstract universe: any assignment of observations consistent with geometry "
               "(wholly interior => vertices and centre inside => shares a point) admits fills satisfying all mode clauses, and the "
               "clauses force the nesting FULL <= CENTER <= OVERLAPPING on unambiguous cells")


def run(ck):
    poly_mc(ck)
    poly_trace(ck, "C07")
