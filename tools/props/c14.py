"""C14 - gridPathCells yields a contiguous shortest path of the announced length."""
import os
import vlib
from props.c05 import NCELLS


def run(ck):
    for r in (0, 1, 2):
        ck.mc("MC_Grid", "MC_Grid_r%d.cfg" % r, what="reference graph of resolution %d" % r, workers=vlib.NCPU, xmx="8g",
              expect_distinct=NCELLS[r])
    ck.mc("MC_Path", "MC_Path.cfg", workers=4,
          what="the line drawing of gridPathCells in exact rational arithmetic (interpolation in cube coordinates, cubeRound with C's "
               "round): for every start within 1 and every end within 9 of it the distance + 1 samples start and end right, lie on "
               "the lattice, stay within one unit of the exact point and consecutive samples are lattice neighbours (ties included)")
    neg = vlib.tlc("MC_Path", "MC_Path_neg.cfg", workers=4)
    if neg["verdict"] != "invariant":
        raise vlib.InfraError("negative control (cubeRound, smallest error) was not rejected: %s" % neg["verdict"])
    ck.ev.notes.append("negative control: cubeRound recomputing the coordinate with the smallest error violates Contiguous, as expected")
    drv = vlib.build_driver("drv_dist", "dbg")
    tp = os.path.join(ck.tdir, "pathij.ndjson")
    d = vlib.run_driver(drv, ["pathij", ck.tier, ck.seed, tp])
    if d["rc"] != 0:
        raise vlib.InfraError("driver failed rc=%s %s" % (d["rc"], d["err"][-1500:]))
    ck.trace("line-model", "Trace_Path", "Trace_Path.cfg", tp, nchunks=16, drift=True,
             what="model -> code: gridPathCells from 7 (19) starts to every cell within 9 on pentagon-free patches of 2 (6) resolutions; "
                  "in the start cell's local IJ coordinates the result is the model's line sample by sample (exact ties excepted)")
    t = os.path.join(ck.tdir, "c14.ndjson")
    d = vlib.run_driver(drv, ["c14", ck.tier, ck.seed, t])
    if d["rc"] != 0:
        raise vlib.InfraError("driver failed rc=%s %s" % (d["rc"], d["err"][-1500:]))
    ck.trace("paths", "Trace_Grid", "Trace.cfg", t, nchunks=16, balance=True,
             what="pairs within k<=3(4) for sampled/all cells of r<=2, strata at all r, random and straight walks, long "
                  "paths (60-160 steps of 3 cells) at r>=5 and lines of 2500-14000 cells at r=13..15; size = distance+1, endpoints, validity, adjacency of consecutive "
                  "cells in N, sentinels beyond the announced size, success for a=b and neighbours")
    ck.ev.assumptions += ["TLC 1.8 / JVM", "H3Grid.tla transcription + frozen tables", "ndjson encodings",
                          "shortest-ness rests on size = gridDistance+1 and C09 (gridDistance = graph distance)"]
