"""C14 - gridPathCells yields a contiguous shortest path of the announced length."""
import os
import vlib
from props.c05 import NCELLS


def run(ck):
    for r in (0, 1, 2):
        ck.mc("MC_Grid", "MC_Grid_r%d.cfg" % r, what="reference graph of resolution %d" % r, workers=vlib.NCPU, xmx="8g",
              expect_distinct=NCELLS[r])
    drv = vlib.build_driver("drv_dist", "dbg")
    t = os.path.join(ck.tdir, "c14.ndjson")
    d = vlib.run_driver(drv, ["c14", ck.tier, ck.seed, t])
    if d["rc"] != 0:
        raise vlib.InfraError("driver failed rc=%s %s" % (d["rc"], d["err"][-1500:]))
    ck.trace("paths", "Trace_Grid", "Trace.cfg", t, nchunks=16, balance=True,
             what="pairs within k<=3(4) for sampled/all cells of r<=2, strata at all r, random and straight walks, long "
                  "paths (60-160 steps of 3 cells) at r>=5 and lines of 2500-14000 cells at r=13..15; size = distance+1, endpoints, validity, adjacency of consecutive "
                  "cells in N, sentinels beyond the announced size, success for a=b and neighbours")
    ck.ev.assumptions += ["TLC 1.8 / JVM", "H3Grid.tla transcription + frozen tables", "ndjson encodings",
                          "shortest-ness rests on size = gridDistance+1 and C09 (gridDistance = graph distance)"]
