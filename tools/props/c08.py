"""C08 - cell boundaries tile the sphere: shared edges coincide, areas sum to 4*pi."""
import os
import vlib
from props.c05 import emit_cells, NCELLS


def geo_trace(ck, cells_rmax=None, strata=True):
    """boundaryNbhd events (shared by C08, C10, C11): model cells r<=cells_rmax + strata r=3..15, validated by Trace_Geo."""
    drv = vlib.build_driver("drv_geo", "rel")
    if cells_rmax is not None:
        cells = emit_cells(ck, cells_rmax)
        wf = os.path.join(ck.tdir, "geo_cells.txt")
        open(wf, "w").write("\n".join("%x" % c for c in cells) + "\n")
        t1 = os.path.join(ck.tdir, "geo_cells.ndjson")
        d = vlib.run_driver(drv, ["cells", wf, t1])
        if d["rc"] != 0:
            raise vlib.InfraError("driver failed rc=%s %s" % (d["rc"], d["err"][-1500:]))
        ck.trace("geo-model-cells", "Trace_Geo", "Trace.cfg", t1, nchunks=16,
                 what="boundary neighbourhoods (vertex ids, edge boundaries, corner coordinates, areas, lengths) of every cell of "
                      "the model graph r<=%d" % cells_rmax)
    if strata:
        t2 = os.path.join(ck.tdir, "geo_strata.ndjson")
        d = vlib.run_driver(drv, ["strata", ck.tier, ck.seed, t2])
        if d["rc"] != 0:
            raise vlib.InfraError("driver failed rc=%s %s" % (d["rc"], d["err"][-1500:]))
        ck.trace("geo-strata", "Trace_Geo", "Trace.cfg", t2, nchunks=16,
                 what="the same for pentagon disks, cells along the 30 icosahedron edges (distortion vertices) and random cells, r=3..15")
    if strata:
        t3 = os.path.join(ck.tdir, "geo_threads.ndjson")
        d = vlib.run_driver(drv, ["threads", ck.tier, ck.seed, t3])
        if d["rc"] != 0:
            raise vlib.InfraError("driver failed rc=%s %s" % (d["rc"], d["err"][-1500:]))
        ck.trace("geo-concurrent", "Trace_Geo", "Trace.cfg", t3, nchunks=16,
                 what="the same boundary observations made by 8 threads at the same time on different cells (the answers are functions of "
                      "the argument whatever other threads are asking)")
    ck.ev.assumptions += ["numeric projections (DESIGN 4.3/6): coordinates -> vertex ids by 1e-12 rad clustering; orientation by the sign of "
                          "triple products in long double; areas by the atan2 triangle formula in long double; arc lengths by atan2; "
                          "tolerances: area rel 1e-4, length rel 1e-7, unit scalings rel 1e-14, area sum 1e-12 sr (>= 10x the worst "
                          "deviation measured on the pinned tree: 3.4e-6, 2.8e-9, 2.2e-16, 6.4e-15)"]


def run(ck):
    q = ck.quick
    for r in ((0, 1, 2) if q else (0, 1, 2, 3)):
        ck.mc("MC_FaceIJK", "MC_FaceIJK_r%d.cfg" % r, workers=vlib.NCPU, xmx="12g", timeout=3400, expect_distinct=NCELLS[r],
              what="exact integer form on the face lattice, r=%d: substrate corners of adjacent cells coincide as integer points, every "
                   "corner belongs to exactly three cells, neighbours share exactly two" % r)
    geo_trace(ck, cells_rmax=2 if q else 3)
    drv = vlib.build_driver("drv_geo", "rel")
    for r in ((0, 1, 2, 3) if q else (0, 1, 2, 3, 4)):
        t = os.path.join(ck.tdir, "areasum%d.ndjson" % r)
        d = vlib.run_driver(drv, ["areasum", r, t])
        if d["rc"] != 0:
            raise vlib.InfraError("driver failed rc=%s %s" % (d["rc"], d["err"][-1500:]))
        ck.trace("area-sum-r%d" % r, "Trace_Geo", "Trace.cfg", t, nchunks=1, boundary=lambda ln: '"areaStart"' in ln, timeout=3400,
                 what="cellAreaRads2 of every cell of resolution %d summed in BigNat by the trace spec: count = 2+120*7^r, sum = 4*pi "
                      "within 1e-12 sr" % r)
    ck.ev.assumptions += ["TLC 1.8 / JVM", "H3Grid / H3FaceIJK transcriptions + frozen tables"]
