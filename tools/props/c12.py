"""C12 - every API call is memory-safe and total on arbitrary arguments."""
import json
import os
import vlib


def run_api(ck, mode, n, seed, out):
    """Runs the generic driver; after a crash (sanitizer report, signal) appends a Crash event and restarts after it."""
    drv = vlib.build_driver("drv_api", mode)
    start = 0
    crashes = 0
    if os.path.exists(out):
        os.remove(out)
    while start < n:
        d = vlib.run_driver(drv, [n, seed, start, out], timeout=max(240, n // 1000))
        if d["rc"] == 0 and not d["timeout"]:
            break
        last = -1
        if os.path.exists(out):
            with open(out, "rb") as f:
                data = f.read()
            # drop a possibly truncated last line
            if not data.endswith(b"\n"):
                data = data[:data.rfind(b"\n") + 1]
                open(out, "wb").write(data)
            lines = data.decode("utf-8", "replace").strip().split("\n")
            if lines and lines[-1]:
                try:
                    last = json.loads(lines[-1]).get("id", -1)
                except Exception:
                    pass
        crashes += 1
        with open(out, "a") as f:
            f.write(json.dumps({"e": "Crash", "id": last + 1, "mode": mode, "seed": seed,
                                "how": "timeout" if d["timeout"] else "exit %s" % d["rc"],
                                "stderr": d["err"][-1500:]}) + "\n")
        start = last + 2
        if crashes >= 5:
            break
    return crashes


def run(ck):
    q = ck.quick
    ck.mc("MC_Api", "MC_Api.cfg", what="the error-code contract table is total and non-contradictory over the argument classes it "
          "distinguishes (ASSUME ContractTotal)")
    t1 = os.path.join(ck.tdir, "api_dbg.ndjson")
    run_api(ck, "dbg", 200000 if q else 3000000, ck.seed, t1)
    ck.trace("api-dbg", "Trace_Api", "Trace.cfg", t1, nchunks=16, balance=True,
             what="all exported functions on arbitrary words / ints / doubles / polygons / cell sets and short call sequences, "
                  "-UNDEBUG build (assert, NEVER, ALWAYS live; an abort is an unconsumable event), guarded exact-size buffers")
    t2 = os.path.join(ck.tdir, "api_asan.ndjson")
    run_api(ck, "asan", 40000 if q else 1500000, ck.seed + 1, t2)
    ck.trace("api-asan", "Trace_Api", "Trace.cfg", t2, nchunks=16, balance=True,
             what="same driver under clang AddressSanitizer + UndefinedBehaviorSanitizer (a report is an unconsumable Crash event)")
    ck.ev.assumptions += ["TLC 1.8 / JVM", "memory safety / undefined behaviour are observed by ASan/UBSan and by canaries around every "
                          "output buffer (DESIGN 6): TLA+ decides the return-code contract and the absence of Abort/Crash events",
                          "buffer sizes are capped so that every documented-size buffer can be allocated (k <= 40, polygons <= ~20000 cells)"]
