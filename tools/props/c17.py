"""C17 - allocation failure is reported cleanly and nothing leaks (fault enumeration through the H3_ALLOC_PREFIX seam)."""
import os
import vlib


def alloc_trace(ck):
    dref = vlib.build_driver("drv_alloc", "dbg")
    ref = os.path.join(ck.tdir, "ref.txt")
    d = vlib.run_driver(dref, ["ref", ck.tier, ck.seed, ref])
    if d["rc"] != 0:
        raise vlib.InfraError("reference run failed rc=%s %s" % (d["rc"], d["err"][-1500:]))
    drun = vlib.build_driver("drv_alloc", "alloc", extra_cflags=["-DVERIF_ALLOC_SHIM"])
    t = os.path.join(ck.tdir, "alloc.ndjson")
    d = vlib.run_driver(drun, ["run", ck.tier, ck.seed, ref, t])
    if d["rc"] != 0:
        raise vlib.InfraError("fault-injection run failed rc=%s %s" % (d["rc"], d["err"][-1500:]))
    return t


def run(ck):
    ck.mc("MC_Alloc", "MC_Alloc.cfg", what="allocator contract on function-shaped models: every control-flow path x every fault plan "
          "(fail the i-th only / from the i-th on / never): balanced frees, no double free, E_MEMORY_ALLOC reported; a model that "
          "swallows the inner failure violates it", workers=8)
    neg = vlib.tlc("MC_Alloc", "MC_Alloc_swallow.cfg", workers=4)
    if neg["verdict"] != "invariant":
        raise vlib.InfraError("negative control (model that swallows the inner allocation failure) was not rejected: %s" % neg["verdict"])
    ck.ev.notes.append("negative control: the pre-fix control flow (inner gridDisk failure ignored) violates Contract in the model, as expected")
    t = alloc_trace(ck)
    n_exec = sum(1 for ln in open(t) if '"Call"' in ln)
    n_fail = sum(1 for ln in open(t) if '"ok":0' in ln)
    ck.ev.extra["executions"] = n_exec
    ck.ev.extra["refused_allocations"] = n_fail
    ck.trace("fault-enumeration", "Trace_Alloc", "Trace.cfg", t, nchunks=16, boundary=lambda ln: '"Reset"' in ln,
             what="every allocation index of every scenario refused once / from there on, plus the fault-free run compared with the "
                  "default-allocator digest: compactCells (0-3 rounds, duplicate / reserved-bits / mixed-resolution exits), gridDisk / "
                  "gridDiskDistances (fallback or not, pentagon origins, invalid origins), areNeighborCells (shortcut / disk / invalid), "
                  "polygonToCells (0-2 holes, near/far pentagons, bad flags/res), polygonToCellsExperimental and "
                  "maxPolygonToCellsSizeExperimental (4 modes, bad flags/res, capacity exceeded), cellsToLinkedMultiPolygon + destroy")
    ck.ev.assumptions += ["TLC 1.8 / JVM", "the shim in harness/drv_alloc.c logs every call the library makes through the "
                          "H3_ALLOC_PREFIX seam (block ids never reused; a foreign/double free is logged, not executed)",
                          "result identity is compared through an FNV digest of return code and output bytes against the same "
                          "scenario run in a build with the default allocator"]
