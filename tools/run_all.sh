#!/bin/bash
# run_all.sh [quick|thorough] : every registered check, one after another, against /repo; summary on stdout
TIER="${1:-quick}"
cd "$(dirname "$0")/.."
for p in $(python3 -c "import json;print(' '.join(c['property_id'] for c in json.load(open('MANIFEST.json'))['checks']))"); do
  s=$(date +%s); out=$(python3 tools/check.py $p $TIER 2>&1); rc=$?
  echo "$p rc=$rc $(( $(date +%s) - s ))s $(echo "$out" | grep -c '^VIOLATION') violations | $(echo "$out" | tail -1 | cut -c1-150)"
done
