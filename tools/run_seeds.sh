#!/bin/bash
# run_seeds.sh s1 s2 ... : every quick check under several VERIF_SEED values (false-alarm hunting on the unchanged tree)
cd "$(dirname "$0")/.."
for s in "$@"; do echo "== VERIF_SEED=$s"; VERIF_SEED=$s tools/run_all.sh quick; done
