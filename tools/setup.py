#!/usr/bin/env python3
"""setup_cmd: offline; checks the toolchain and pre-builds the library in the modes the quick checks use."""
import os
import shutil
import sys
sys.path.insert(0, os.path.dirname(os.path.abspath(__file__)))
import vlib

for t in ("java", "gcc", "clang", "ar"):
    if not shutil.which(t):
        print("missing tool:", t)
        sys.exit(1)
if not os.path.exists("/opt/veriftools/tla/tla2tools.jar"):
    print("missing tla2tools.jar")
    sys.exit(1)
os.makedirs(vlib.BUILD, exist_ok=True)
for m in ("dbg", "rel", "alloc"):
    vlib.build_lib(m)
rc, out = vlib.sh(["java", "-cp", vlib.TLAJAR, "tla2sany.SANY", "H3Index.tla"], cwd=vlib.SPEC)
print("setup ok")
