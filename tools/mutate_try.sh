#!/bin/sh
# usage: mutate_try.sh <patch-or-sed-script-file> <Cxx> [tier]  -- run a check against a mutated scratch copy of /repo
# The scratch copy lives under /var/tmp and is removed afterwards (with its build output).
set -e
P="$1"; PROP="$2"; TIER="${3:-quick}"
D=$(mktemp -d /var/tmp/h3mut.XXXXXX)
mkdir -p "$D/src/h3lib"
cp -r /repo/src/h3lib/lib /repo/src/h3lib/include "$D/src/h3lib/"
cp /repo/VERSION "$D/"
case "$P" in
  *.diff|*.patch) (cd "$D" && patch -p1 -s < "$P") ;;
  *) (cd "$D" && sh "$P") ;;
esac
VERIF_REPO="$D" python3 /verif/tools/check.py "$PROP" "$TIER" || true
H=$(python3 -c "import hashlib,sys;print(hashlib.sha1(sys.argv[1].encode()).hexdigest()[:8])" "$D")
rm -rf "$D" "/verif/build/alt-$H"
