#!/usr/bin/env python3
"""Shared machinery for the h3 verification checks (python3 stdlib only).

Nothing here decides a property.  It builds /repo's current working tree, runs drivers that
log what the real library did, runs TLC/Apalache on the specification in /verif/spec, and
turns TLC's verdicts (accepted / rejected at event l / invariant violated) into the
VIOLATION / KNOWN-FINDING / evidence interface.
"""
import concurrent.futures as cf
import glob
import hashlib
import json
import os
import re
import shutil
import subprocess
import sys
import time

VERIF = os.path.dirname(os.path.dirname(os.path.abspath(__file__)))
REPO = os.environ.get("VERIF_REPO", "/repo")
BUILD = os.path.join(VERIF, "build") if REPO == "/repo" else os.path.join(
    VERIF, "build", "alt-" + hashlib.sha1(REPO.encode()).hexdigest()[:8])
SPEC = os.path.join(VERIF, "spec")
HARNESS = os.path.join(VERIF, "harness")
# evidence of runs against a scratch copy (seeded changes) never overwrites the evidence of /repo itself
EVID = os.path.join(VERIF, "evidence") if REPO == "/repo" else os.path.join(BUILD, "evidence")
TLAJAR = "/opt/veriftools/tla/tla2tools.jar:/opt/veriftools/tla/CommunityModules-deps.jar"
NCPU = os.cpu_count() or 4
GUARD = "H3_VERIF"


def log(*a):
    print(*a, flush=True)


def sh(cmd, timeout=None, env=None, cwd=None, check=False, input=None):
    e = dict(os.environ)
    if env:
        e.update(env)
    p = subprocess.run(cmd, stdout=subprocess.PIPE, stderr=subprocess.STDOUT, timeout=timeout,
                       env=e, cwd=cwd, input=input)
    out = p.stdout.decode("utf-8", "replace")
    if check and p.returncode != 0:
        raise InfraError("command failed (%d): %s\n%s" % (p.returncode, " ".join(cmd), out[-4000:]))
    return p.returncode, out


class InfraError(Exception):
    """Something other than a verdict went wrong (build failure, TLC crash, timeout)."""


# ---------------------------------------------------------------------------------------
# building /repo's working tree
# ---------------------------------------------------------------------------------------
MODES = {
    # asserts / NEVER / ALWAYS live
    "dbg": dict(cc="gcc", cflags=["-O1", "-g", "-UNDEBUG"], ld=[]),
    # optimised as shipped (NDEBUG), used where speed matters and asserts are not the subject
    "rel": dict(cc="gcc", cflags=["-O2", "-DNDEBUG"], ld=[]),
    "asan": dict(cc="clang", cflags=["-O1", "-g", "-UNDEBUG", "-fsanitize=address,undefined",
                                     "-fno-sanitize-recover=undefined", "-fno-omit-frame-pointer"],
                 ld=["-fsanitize=address,undefined"]),
    "tsan": dict(cc="clang", cflags=["-O1", "-g", "-DNDEBUG", "-fsanitize=thread"],
                 ld=["-fsanitize=thread"]),
    # custom allocator seam
    "alloc": dict(cc="gcc", cflags=["-O1", "-g", "-UNDEBUG", "-DH3_ALLOC_PREFIX=verif_"], ld=[]),
    # position independent, for the shared library used by the globals hash
    "pic": dict(cc="gcc", cflags=["-O1", "-g", "-DNDEBUG", "-fPIC"], ld=[]),
}


def _gen_api_header(incdir):
    ver = open(os.path.join(REPO, "VERSION")).read().split("\n")[0].split("-")[0].strip().split(".")
    src = open(os.path.join(REPO, "src/h3lib/include/h3api.h.in")).read()
    src = (src.replace("@H3_VERSION_MAJOR@", ver[0]).replace("@H3_VERSION_MINOR@", ver[1])
           .replace("@H3_VERSION_PATCH@", ver[2]))
    dst = os.path.join(incdir, "h3api.h")
    if not os.path.exists(dst) or open(dst).read() != src:
        open(dst, "w").write(src)


def build_lib(mode):
    """Compile every .c under /repo/src/h3lib/lib into build/<mode>/libh3.a (always from the
    current working tree; recompiles a file when it or any header is newer than its object)."""
    m = MODES[mode]
    d = os.path.join(BUILD, mode)
    inc = os.path.join(d, "include")
    os.makedirs(inc, exist_ok=True)
    _gen_api_header(inc)
    srcs = sorted(glob.glob(os.path.join(REPO, "src/h3lib/lib/*.c")))
    hdrs = glob.glob(os.path.join(REPO, "src/h3lib/include/*")) + [os.path.join(inc, "h3api.h")]
    hmt = max(os.path.getmtime(h) for h in hdrs)
    # a content hash of flags so a flag change rebuilds
    sig = hashlib.sha1((" ".join(m["cflags"]) + m["cc"]).encode()).hexdigest()[:8]
    jobs = []
    objs = []
    for s in srcs:
        o = os.path.join(d, os.path.basename(s)[:-2] + "." + sig + ".o")
        objs.append(o)
        if (not os.path.exists(o)) or os.path.getmtime(o) < max(os.path.getmtime(s), hmt):
            jobs.append([m["cc"], "-std=c99", "-D" + GUARD, "-DH3_PREFIX=", "-Wno-error"] + m["cflags"] +
                        ["-I", inc, "-I", os.path.join(REPO, "src/h3lib/include"), "-c", s, "-o", o])
    if jobs:
        with cf.ThreadPoolExecutor(NCPU) as ex:
            for rc, out in ex.map(lambda c: sh(c, timeout=600), jobs):
                if rc != 0:
                    raise InfraError("library build failed (%s):\n%s" % (mode, out[-3000:]))
    # drop objects of deleted sources / other signatures
    for o in glob.glob(os.path.join(d, "*.o")):
        if o not in objs:
            os.remove(o)
    lib = os.path.join(d, "libh3.a")
    if jobs or not os.path.exists(lib):
        if os.path.exists(lib):
            os.remove(lib)
        sh(["ar", "rcs", lib] + objs, check=True)
    return dict(dir=d, lib=lib, inc=inc, mode=mode, cc=m["cc"], cflags=m["cflags"], ld=m["ld"])


def build_shared(mode="pic"):
    """libh3.so from the objects of a -fPIC build, eagerly bound (-z now) so that nothing in its writable segments changes after load."""
    b = build_lib(mode)
    so = os.path.join(b["dir"], "libh3.so")
    if (not os.path.exists(so)) or os.path.getmtime(so) < os.path.getmtime(b["lib"]):
        objs = sorted(glob.glob(os.path.join(b["dir"], "*.o")))
        sh([b["cc"], "-shared", "-Wl,-z,now", "-o", so] + objs + ["-lm"], check=True)
    b = dict(b)
    b["so"] = so
    return b


def build_driver_so(name, mode="pic"):
    b = build_shared(mode)
    out = os.path.join(b["dir"], name + "_so")
    srcs = [os.path.join(HARNESS, name + ".c"), os.path.join(HARNESS, "vtrace.c")]
    deps = srcs + glob.glob(os.path.join(HARNESS, "*.h")) + [b["so"]]
    if os.path.exists(out) and os.path.getmtime(out) >= max(os.path.getmtime(x) for x in deps):
        return out
    cmd = ([b["cc"], "-std=gnu11", "-D" + GUARD, "-DH3_PREFIX=", "-O1", "-g", "-I", b["inc"], "-I", HARNESS] + srcs +
           ["-L", b["dir"], "-lh3", "-Wl,-rpath," + b["dir"], "-Wl,-z,now", "-lm", "-lpthread", "-o", out])
    rc, o = sh(cmd, timeout=600)
    if rc != 0:
        raise InfraError("driver build failed (so/%s):\n%s" % (name, o[-3000:]))
    return out


def build_driver(name, mode, sources=None, extra_cflags=(), extra_ld=(), internal=False):
    """Compile harness/<name>.c (+ common files) against the library built in <mode>."""
    b = build_lib(mode)
    srcs = [os.path.join(HARNESS, s) for s in (sources or [name + ".c"])]
    common = [os.path.join(HARNESS, "vtrace.c")]
    out = os.path.join(b["dir"], name)
    deps = srcs + common + glob.glob(os.path.join(HARNESS, "*.h")) + [b["lib"]]
    if os.path.exists(out) and os.path.getmtime(out) >= max(os.path.getmtime(x) for x in deps):
        return out
    inc = ["-I", b["inc"], "-I", HARNESS]
    if internal:
        inc += ["-I", os.path.join(REPO, "src/h3lib/include")]
    cmd = ([b["cc"], "-std=gnu11", "-D" + GUARD, "-DH3_PREFIX=", "-rdynamic"] + b["cflags"] + list(extra_cflags) + inc + srcs + common +
           [b["lib"], "-lm", "-lpthread", "-o", out] + b["ld"] + list(extra_ld))
    rc, o = sh(cmd, timeout=600)
    if rc != 0:
        raise InfraError("driver build failed (%s/%s):\n%s" % (mode, name, o[-3000:]))
    return out


_libsyms = {}


def lib_symbols(exe):
    """names of the functions defined by the library the driver was linked with (nm on libh3.a next to the executable)"""
    lib = os.path.join(os.path.dirname(exe), "libh3.a")
    if lib not in _libsyms:
        rc, out = sh(["nm", "--defined-only", lib])
        _libsyms[lib] = set(ln.split()[-1] for ln in out.splitlines() if len(ln.split()) == 3 and ln.split()[1] in "Tt")
    return _libsyms[lib]


def classify_crash(exe, err):
    """None if the driver did not report a fatal signal; else (signal, function, is_library): the innermost frame with a known name"""
    m = re.search(r"VERIF-CRASH sig=(\d+)\n(.*?)VERIF-CRASH-END", err, re.S)
    if not m:
        return None
    syms = lib_symbols(exe)
    for ln in m.group(2).splitlines():
        f = re.search(r"\(([A-Za-z_][A-Za-z0-9_]*)\+0x", ln)
        if not f or f.group(1) in ("vt_on_fatal",):
            continue
        if os.path.basename(exe) not in ln.split("(")[0]:
            continue        # a frame of libc / libm (abort, raise, memcpy ...): the caller decides whose fault it is
        name = f.group(1)
        return int(m.group(1)), name, name in syms
    return int(m.group(1)), "?", False


def run_driver(exe, args, outfile=None, timeout=1800, env=None):
    d = _run_driver(exe, args, outfile, timeout, env)
    if d["rc"] != 0 and not d["timeout"]:
        c = classify_crash(exe, d["err"])
        tr = [a for a in args if isinstance(a, str) and a.endswith(".ndjson")]
        if c and c[2] and tr:
            # the library under test crashed inside one of its own functions: that is an observation, not an infrastructure
            # failure.  The recorded trace is kept (a torn last line is dropped) and a Crash event is appended.
            path = tr[-1]
            data = open(path, "rb").read() if os.path.exists(path) else b""
            if data and not data.endswith(b"\n"):
                data = data[:data.rfind(b"\n") + 1]
            data += (json.dumps({"e": "Crash", "sig": c[0], "f": c[1], "how": "fatal signal inside library function"}) + "\n").encode()
            open(path, "wb").write(data)
            log("  [driver] %s: fatal signal %d inside library function %s -> Crash event" % (os.path.basename(exe), c[0], c[1]))
            d = dict(d); d["libcrash"] = c[1]; d["rc"] = 0
    return d


def _run_driver(exe, args, outfile=None, timeout=1800, env=None):
    t0 = time.time()
    e = dict(os.environ)
    e.setdefault("ASAN_OPTIONS", "detect_leaks=0:abort_on_error=1:handle_abort=0")
    e.setdefault("UBSAN_OPTIONS", "halt_on_error=1:abort_on_error=1:print_stacktrace=1")
    if env:
        e.update(env)
    try:
        p = subprocess.run([exe] + [str(a) for a in args], stdout=subprocess.PIPE, stderr=subprocess.PIPE,
                           timeout=timeout, env=e)
    except subprocess.TimeoutExpired:
        return dict(rc=-9, out="", err="TIMEOUT after %ss" % timeout, wall=time.time() - t0, timeout=True)
    return dict(rc=p.returncode, out=p.stdout.decode("utf-8", "replace"),
                err=p.stderr.decode("utf-8", "replace"), wall=time.time() - t0, timeout=False)


# ---------------------------------------------------------------------------------------
# TLC
# ---------------------------------------------------------------------------------------
_metactr = [0]


def _metadir(tag):
    _metactr[0] += 1
    d = os.path.join(BUILD, "tlc", "%s.%d.%d" % (re.sub(r"\W", "_", tag), os.getpid(), _metactr[0]))
    shutil.rmtree(d, ignore_errors=True)
    os.makedirs(d, exist_ok=True)
    return d


def tlc(module, cfg=None, workers=1, extra=(), env=None, timeout=1700, xmx="4g", deque=False, tag=None,
        cwd=None, light=False):
    """Run TLC on spec/<module>.tla with spec/<cfg>.  Returns a dict:
       ok (no violation, finished), verdict in {ok, invariant, property, deadlock, assumption,
       postcondition, error, timeout}, states, distinct, out."""
    cwd = cwd or SPEC
    cfg = cfg or (module + ".cfg")
    md = _metadir(tag or module)
    jopts = ["-XX:+UseParallelGC", "-Xmx" + xmx, "-Xss64m", "-DTLA-Library=" + SPEC,
             "-Djava.io.tmpdir=" + md]   # TLC unpacks its standard modules into java.io.tmpdir: keep that out of /tmp
    if light:   # many short single-worker JVMs side by side: keep each one's helper threads few
        jopts += ["-XX:ParallelGCThreads=2", "-XX:CICompilerCount=2", "-XX:+UseSerialGC"]
        jopts.remove("-XX:+UseParallelGC")
    if deque:
        jopts.append("-Dtlc2.tool.queue.IStateQueue=StateDeque")
    cmd = (["java"] + jopts + ["-cp", TLAJAR, "tlc2.TLC", "-workers", str(workers), "-metadir", md,
                               "-config", cfg, "-noGenerateSpecTE"] + list(extra) + [module + ".tla"])
    t0 = time.time()
    e = dict(os.environ)
    e.pop("JAVA_TOOL_OPTIONS", None)
    if env:
        e.update(env)
    try:
        p = subprocess.run(cmd, stdout=subprocess.PIPE, stderr=subprocess.STDOUT, timeout=timeout, env=e, cwd=cwd)
        out = p.stdout.decode("utf-8", "replace")
        rc = p.returncode
    except subprocess.TimeoutExpired as ex:
        out = (ex.stdout or b"").decode("utf-8", "replace")
        rc = -9
    shutil.rmtree(md, ignore_errors=True)
    res = dict(rc=rc, out=out, wall=time.time() - t0, cmd=" ".join(cmd[cmd.index("tlc2.TLC"):]), module=module, cfg=cfg)
    m = re.findall(r"(\d+) states generated, (\d+) distinct states found", out)
    res["states"], res["distinct"] = (int(m[-1][0]), int(m[-1][1])) if m else (0, 0)
    m = re.search(r"The depth of the complete state graph search is (\d+)", out)
    res["depth"] = int(m.group(1)) if m else None
    if rc == -9:
        v = "timeout"
    elif "Invariant " in out and " is violated" in out:
        v = "invariant"
    elif "Temporal properties were violated" in out or "Action property" in out and "is violated" in out:
        v = "property"
    elif "Deadlock reached" in out:
        v = "deadlock"
    elif "Assumption" in out and "is false" in out:
        v = "assumption"
    elif "POSTCONDITION_FALSE" in out or ("ostcondition" in out and "violated" in out):
        v = "postcondition"
    elif rc == 0 and ("Model checking completed. No error has been found" in out or "Finished in" in out
                      or "simulation" in out.lower()):
        v = "ok"
    else:
        v = "error"
    res["verdict"] = v
    res["ok"] = v == "ok"
    return res


def tlc_must_pass(ev, module, cfg=None, what="", **kw):
    """Design-level model-checking run that has to succeed; anything else is reported by caller."""
    r = tlc(module, cfg, **kw)
    ev.add_mc(r, what)
    log("  [tlc] %-28s %-26s %-9s states=%d distinct=%d  %.1fs" % (module, cfg or "", r["verdict"], r["states"],
                                                                  r["distinct"], r["wall"]))
    return r


# ---------------------------------------------------------------------------------------
# trace validation
# ---------------------------------------------------------------------------------------
def split_trace(path, nchunks, boundary=None, outdir=None, balance=False):
    """Split an ndjson trace into <= nchunks files on line boundaries (or at lines for which
    boundary(line) is true).  Returns [(chunkpath, first_line_index0)]."""
    lines = open(path).read().splitlines()
    lines = [x for x in lines if x.strip()]
    n = len(lines)
    if n == 0:
        return []
    outdir = outdir or os.path.dirname(path)
    if balance and not boundary:
        # stateless events: distribute by size (longest first into the lightest bin) so that a few huge events do
        # not serialise the run; order inside a chunk is irrelevant for these trace specs
        bins = [[0, []] for _ in range(min(nchunks, n))]
        for ln in sorted(lines, key=len, reverse=True):
            b = min(bins, key=lambda x: x[0])
            b[0] += len(ln) + 200
            b[1].append(ln)
        res = []
        base = os.path.basename(path)
        for k, (_, ls) in enumerate(bins):
            cp = os.path.join(outdir, "%s.c%02d" % (base, k))
            with open(cp, "w") as f:
                f.write("\n".join(ls) + "\n")
            res.append((cp, 0))
        return res
    per = max(1, (n + nchunks - 1) // nchunks)
    cuts = [0]
    i = per
    while i < n:
        if boundary:
            while i < n and not boundary(lines[i]):
                i += 1
            if i >= n:
                break
        cuts.append(i)
        i += per
    cuts.append(n)
    res = []
    base = os.path.basename(path)
    for k in range(len(cuts) - 1):
        cp = os.path.join(outdir, "%s.c%02d" % (base, k))
        with open(cp, "w") as f:
            f.write("\n".join(lines[cuts[k]:cuts[k + 1]]) + "\n")
        res.append((cp, cuts[k]))
    return res


def validate_chunk(module, cfg, chunk, timeout=1700, xmx="3g", env=None):
    """Validate one ndjson file against trace spec <module>.  Returns dict(accepted, l, n, out)
    where l is the 1-based index of the first event TLC could not consume (None if accepted)."""
    e = {"TRACE": chunk}
    if env:
        e.update(env)
    n = sum(1 for x in open(chunk) if x.strip())
    r = tlc(module, cfg, workers=1, env=e, timeout=timeout, xmx=xmx, tag="tr_" + os.path.basename(chunk), light=True)
    out = r["out"]
    m = re.search(r'TRACE_ACCEPTED",\s*(\d+)', out)
    if m and r["rc"] == 0:
        return dict(accepted=True, l=None, n=n, res=r)
    m = re.search(r'TRACE_REJECTED_AT",\s*(\d+)', out)
    if m:
        return dict(accepted=False, l=int(m.group(1)), n=n, res=r)
    raise InfraError("trace validation of %s with %s gave no verdict (rc=%s, %s):\n%s" %
                     (chunk, module, r["rc"], r["verdict"], out[-1500:]))


class TraceResult:
    def __init__(self):
        self.events = 0
        self.traces = 0
        self.rejections = []  # list of dict(event=..., file=..., line=...)
        self.wall = 0.0
        self.states = 0


def validate_trace(module, cfg, path, nchunks=None, boundary=None, max_rejections=3, group=None, env=None,
                   timeout=1700, balance=False):
    """Validate a whole ndjson trace in parallel chunks.  After a rejection the rejected event
    (or, for stateful traces, the execution up to the next boundary) is skipped and validation
    of the remainder continues, so one finding does not hide the rest.  A rejection is only
    reported if validating the event (group) on its own repeats it."""
    t0 = time.time()
    tr = TraceResult()
    nchunks = nchunks or NCPU
    chunks = split_trace(path, nchunks, boundary, balance=balance)
    tr.traces = len(chunks)

    def work(ch):
        cp, off = ch
        rej = []
        nev = 0
        states = 0
        cur = cp
        curoff = off
        while True:
            v = validate_chunk(module, cfg, cur, env=env, timeout=timeout)
            states += v["res"]["distinct"]
            if v["accepted"]:
                nev += v["n"]
                break
            lines = [x for x in open(cur).read().splitlines() if x.strip()]
            l = v["l"]
            if l < 1 or l > len(lines):
                raise InfraError("bad rejection index %s for %s" % (l, cur))
            # isolate the offending event (group)
            lo = l - 1
            hi = l
            if boundary:
                while lo > 0 and not boundary(lines[lo]):
                    lo -= 1
                while hi < len(lines) and not boundary(lines[hi]):
                    hi += 1
            iso = cur + ".iso"
            open(iso, "w").write("\n".join(lines[lo:hi]) + "\n")
            v2 = validate_chunk(module, cfg, iso, env=env, timeout=timeout)
            if not v2["accepted"]:
                rej.append(dict(event=json.loads(lines[l - 1]), group=[json.loads(x) for x in lines[lo:hi]][:50],
                                line=curoff + l, file=path))
            else:
                # not reproducible in isolation: context-dependent; report as flaky-infra, never as violation
                raise InfraError("rejection at %s:%d not reproducible in isolation" % (path, curoff + l))
            nev += lo
            if len(rej) >= max_rejections or hi >= len(lines):
                break
            nxt = cp + ".rest"
            open(nxt, "w").write("\n".join(lines[hi:]) + "\n")
            curoff += hi
            cur = nxt
        return nev, rej, states

    with cf.ThreadPoolExecutor(min(NCPU, max(1, len(chunks)))) as ex:
        for nev, rej, states in ex.map(work, chunks):
            tr.events += nev
            tr.rejections += rej
            tr.states += states
    tr.wall = time.time() - t0
    return tr


# ---------------------------------------------------------------------------------------
# evidence, findings, verdict
# ---------------------------------------------------------------------------------------
def load_known():
    p = os.path.join(VERIF, "known_findings.json")
    if not os.path.exists(p):
        return []
    return json.load(open(p)).get("findings", [])


def match_known(prop, event, obj=None):
    """A violation is known only if a 'known' entry of this property matches it on every key of its 'match' object (exact
    equality): plain keys are fields of the rejected event, keys starting with '@' are fields of the violation record itself
    (@suite, @trace_spec, @kind, @cfg)."""
    obj = obj or {}
    for k in load_known():
        if k.get("property") != prop or k.get("status") != "known":
            continue
        if all((obj.get(a[1:]) if a.startswith("@") else event.get(a)) == b for a, b in k.get("match", {}).items()):
            return k
    return None


class Evidence:
    def __init__(self, prop, tier, seed, level="model_checking"):
        self.prop, self.tier, self.seed, self.level = prop, tier, seed, level
        self.t0 = time.time()
        self.states = 0
        self.transitions = 0
        self.traces = 0
        self.events = 0
        self.samples = []
        self.mc_runs = []
        self.trace_runs = []
        self.extra = {}
        self.assumptions = []
        self.violations = []
        self.known = []
        self.notes = []

    def add_mc(self, r, what=""):
        self.states += r["distinct"]
        self.transitions += r["states"]
        self.mc_runs.append(dict(module=r["module"], cfg=r["cfg"], what=what, verdict=r["verdict"],
                                 states_generated=r["states"], distinct=r["distinct"], depth=r.get("depth"),
                                 wall_s=round(r["wall"], 1)))

    def add_trace(self, name, tr, sample_from=None, what=""):
        self.traces += tr.traces
        self.events += tr.events
        self.states += tr.states
        self.transitions += tr.events
        self.trace_runs.append(dict(suite=name, what=what, chunks=tr.traces, events_accepted=tr.events,
                                    rejections=len(tr.rejections), wall_s=round(tr.wall, 1)))
        if sample_from and os.path.exists(sample_from):
            with open(sample_from) as f:
                lines = f.read().splitlines()
            step = max(1, len(lines) // 3)
            for ln in lines[::step][:3]:
                if len(ln) < 1500:
                    try:
                        self.samples.append(json.loads(ln))
                    except Exception:
                        pass

    def write(self):
        os.makedirs(EVID, exist_ok=True)
        cov = dict(states=max(1, self.states), transitions=max(1, self.transitions),
                   traces_validated_against_impl=self.traces,
                   events_validated_against_impl=self.events,
                   samples=self.samples[:12] or [{"note": "no trace sample recorded"}],
                   model_checking_runs=self.mc_runs, trace_runs=self.trace_runs,
                   known_findings_printed=self.known, notes=self.notes)
        cov.update(self.extra)
        ev = dict(property_id=self.prop, tier=self.tier, seed=self.seed, level=self.level, coverage=cov,
                  assumptions=self.assumptions, wall_s=round(time.time() - self.t0, 1),
                  violations=len(self.violations))
        with open(os.path.join(EVID, self.prop + ".json"), "w") as f:
            json.dump(ev, f, indent=1, sort_keys=True)
            f.write("\n")


class Check:
    """Context of one check run: collects verdicts and produces the interface output."""

    def __init__(self, prop, tier, level="model_checking"):
        self.prop = prop
        self.tier = tier
        self.seed = int(os.environ.get("VERIF_SEED", "1") or "1")
        self.ev = Evidence(prop, tier, self.seed, level)
        self.quick = tier != "thorough"
        self.replays = 0
        self.tdir = os.path.join(BUILD, "traces", prop)
        shutil.rmtree(self.tdir, ignore_errors=True)
        os.makedirs(self.tdir, exist_ok=True)

    # -- design level ------------------------------------------------------------------
    def mc(self, module, cfg=None, what="", expect_distinct=None, **kw):
        r = tlc_must_pass(self.ev, module, cfg, what, **kw)
        if r["verdict"] in ("error", "timeout"):
            raise InfraError("TLC %s/%s: %s\n%s" % (module, cfg, r["verdict"], r["out"][-3000:]))
        if not r["ok"]:
            self.violation(dict(kind="model", module=module, cfg=cfg or module + ".cfg", verdict=r["verdict"],
                                what=what, tlc_tail=r["out"][-6000:]))
        elif expect_distinct is not None and r["distinct"] != expect_distinct:
            self.violation(dict(kind="model-count", module=module, cfg=cfg, expected=expect_distinct,
                                distinct=r["distinct"], what=what))
        return r

    # -- conformance -------------------------------------------------------------------
    def trace(self, name, module, cfg, path, what="", boundary=None, nchunks=None, env=None, timeout=1700, balance=False, drift=False,
              max_rejections=3):
        """drift=True: the trace spec compares the code with an implementation-shaped (R2) model on something the API does not
        promise (coordinates, orders); a rejection is reported as MODEL-DRIFT in the evidence and never fails the check."""
        tr = validate_trace(module, cfg, path, nchunks=nchunks, boundary=boundary, env=env, timeout=timeout, balance=balance,
                            max_rejections=max_rejections)
        if drift:
            self.ev.add_trace(name, tr, sample_from=path, what=what + " [conformance with an R2 model: rejections are MODEL-DRIFT, not violations]")
            log("  [drift] %-22s %-18s events=%d chunks=%d divergences=%d  %.1fs" % (name, module, tr.events, tr.traces, len(tr.rejections), tr.wall))
            for rj in tr.rejections[:5]:
                msg = "MODEL-DRIFT %s/%s: the code diverges from the model at %s" % (name, module, json.dumps(rj["event"])[:600])
                log(msg)
                self.ev.notes.append(msg)
            self.ev.extra.setdefault("model_drift", {})[name] = len(tr.rejections)
            return tr
        self.ev.add_trace(name, tr, sample_from=path, what=what)
        log("  [trace] %-22s %-18s events=%d chunks=%d rejections=%d  %.1fs" %
            (name, module, tr.events, tr.traces, len(tr.rejections), tr.wall))
        for rj in tr.rejections:
            self.violation(dict(kind="trace", suite=name, trace_spec=module, cfg=cfg, event=rj["event"],
                                group=rj["group"], line=rj["line"], what=what))
        return tr

    def violation(self, obj):
        ev = obj.get("event") or obj
        k = match_known(self.prop, ev, obj)
        if k:
            msg = "KNOWN-FINDING: property=%s %s" % (self.prop, k.get("what", ""))
            if msg not in self.ev.known:
                self.ev.known.append(msg)
                log(msg)
            return
        self.replays += 1
        if self.replays > 6:
            self.ev.violations.append("(further violation not written out)")
            return
        rp = os.path.join(BUILD, "replay")
        os.makedirs(rp, exist_ok=True)
        path = os.path.join(rp, "%s-%d.json" % (self.prop, self.replays))
        obj = dict(obj)
        obj["property"] = self.prop
        obj["seed"] = self.seed
        obj["tier"] = self.tier
        json.dump(obj, open(path, "w"), indent=1)
        self.ev.violations.append(path)
        log("VIOLATION property=%s replay=%s" % (self.prop, path))
        short = {k2: v for k2, v in obj.items() if k2 not in ("tlc_tail", "group")}
        log("  detail: " + json.dumps(short)[:1500])

    def finish(self):
        self.ev.write()
        if self.ev.violations:
            log("%s %s: %d violation(s)" % (self.prop, self.tier, len(self.ev.violations)))
            return 1
        log("%s %s: property held on everything explored%s (%d TLC states, %d impl events validated, %.0fs)" %
            (self.prop, self.tier, " except for the %d known finding(s) printed above" % len(self.ev.known) if self.ev.known else "",
             self.ev.states, self.ev.events, time.time() - self.ev.t0))
        return 0
