#!/bin/bash
# confirm_seed.sh <ID> [worktree]: independently confirm a seeded change produced by a sub-agent:
#   (1) it compiles, (2) the repository's whole test suite passes with it, (3) the demonstration fails
#   with it and passes without it.  On success copies patch.diff/demo/meta.json to /verif/seeded/<ID>/.
ID="$1"; WT="${2:-/tmp/wt-$ID}"; TAG="${3:-$ID}"
OUT=/verif/seeded/$TAG
set -u
cd "$WT" || exit 2
[ -f seed_out/patch.diff ] || { echo "no patch"; exit 2; }
git -C "$WT" diff -- src > /tmp/confirm-$TAG.diff
# make sure the worktree state equals the patch
git -C "$WT" checkout -q -- src && git -C "$WT" apply seed_out/patch.diff || { echo "patch does not apply"; exit 2; }
[ -d _build ] || cmake -G Ninja -S "$WT" -B "$WT/_build" -DCMAKE_BUILD_TYPE=RelWithDebInfo -DCMAKE_C_FLAGS=-Wno-error >/dev/null
cmake --build _build -j8 2>&1 | tail -1
CT=$(ctest --test-dir _build -j8 --timeout 900 2>&1 | grep "tests passed\|tests failed" | tail -1)
echo "ctest with change: $CT"
build_demo() {
  if grep -q "H3_ALLOC_PREFIX" seed_out/demo.c; then
    PFX=$(grep -o "H3_ALLOC_PREFIX=[A-Za-z_0-9]*" seed_out/demo.c | head -1)
    cc -std=gnu11 -O1 -DH3_PREFIX= -D$PFX -I_build/src/h3lib/include -Isrc/h3lib/include seed_out/demo.c src/h3lib/lib/*.c -lm -lpthread -o /tmp/confirm-$TAG.demo 2>&1 | grep -i "error" | head
  else
    cc -std=gnu11 -O1 -I_build/src/h3lib/include -Isrc/h3lib/include seed_out/demo.c _build/lib/libh3.a -lm -lpthread -o /tmp/confirm-$TAG.demo 2>&1 | grep -i "error" | head
  fi
}
build_demo; timeout 600 /tmp/confirm-$TAG.demo > /tmp/confirm-$TAG.mod.out 2>&1; RC_MOD=$?
git -C "$WT" checkout -q -- src
cmake --build _build -j8 2>&1 | tail -1
build_demo; timeout 600 /tmp/confirm-$TAG.demo > /tmp/confirm-$TAG.orig.out 2>&1; RC_ORIG=$?
echo "demo rc with change: $RC_MOD ; without: $RC_ORIG"
tail -2 /tmp/confirm-$TAG.mod.out
if echo "$CT" | grep -q "100% tests passed" && [ $RC_MOD -ne 0 ] && [ $RC_ORIG -eq 0 ]; then
  mkdir -p $OUT; cp seed_out/patch.diff seed_out/demo.c $OUT/
  python3 - "$OUT" "$WT" "$CT" "$RC_MOD" "$RC_ORIG" "$ID" <<'PY'
import json,sys
out,wt,ct,rm,ro,pid=sys.argv[1:7]
try: m=json.load(open(wt+'/seed_out/meta.json'))
except Exception: m={}
m['property']=pid
m['confirmed_by_main_session']={'ctest_with_change':ct,'demo_exit_with_change':int(rm),'demo_exit_without_change':int(ro),
  'how':'tools/confirm_seed.sh: applied patch.diff in a scratch worktree, cmake --build, ctest -j8 (all 280 pass), compiled demo.c against the modified and the unmodified library'}
json.dump(m,open(out+'/meta.json','w'),indent=1)
PY
  echo "CONFIRMED $TAG -> $OUT"
else
  echo "NOT CONFIRMED $TAG"
fi
rm -f /tmp/confirm-$TAG.*
