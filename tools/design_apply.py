#!/usr/bin/env python3
"""Replaces the two generated tables of DESIGN.md (11.2 and 12) with the output of design_tables.py."""
import os
import subprocess
import sys
V = os.path.dirname(os.path.dirname(os.path.abspath(__file__)))
out = subprocess.run([sys.executable, os.path.join(V, "tools", "design_tables.py")], stdout=subprocess.PIPE, check=True).stdout.decode()
t1, t2 = out.strip("\n").split("\n\n")
L = open(os.path.join(V, "DESIGN.md")).read().split("\n")


def replace(L, header_prefix, new):
    i = next(k for k, x in enumerate(L) if x.startswith(header_prefix))
    j = i
    while j < len(L) and L[j].startswith("|"):
        j += 1
    return L[:i] + new.split("\n") + L[j:]


L = replace(L, "| id | tier | TLC model-checking runs", t1)
L = replace(L, "| seed | property | what it needs", t2)
open(os.path.join(V, "DESIGN.md"), "w").write("\n".join(L))
