----------------------------- MODULE H3VertexGraph -----------------------------
(* The edge-cancellation graph of cellsToLinkedMultiPolygon (h3SetToVertexGraph + vertexGraph.c), as a state machine (C16).

   Cells are processed one after another; for each boundary edge (from, to) of the cell the graph is asked for the
   reversed edge (to, from): found -> both cancel (the edge is interior), not found -> the edge is stored.  Edges are kept
   in hash buckets keyed by their start vertex.  Two cells compute a shared vertex independently, and the two results can
   differ in the last bits: they still compare equal (geoAlmostEqual) but their hash values before the modulo may differ
   by one.  This is modelled exactly: every vertex v has a base hash value HB[v], and the copy of v computed by cell c
   hashes to HB[v] + Off[c][v] with Off in {0, 1}.  HB, Off and the number of buckets are arbitrary.

   Lookup = "own"   : search only the bucket of the value itself          (the design before the fix; must FAIL)
   Lookup = "near"  : search the buckets of the value, value+1, value-1   (the design after the fix; must hold)

   Property: when all cells are processed, the stored edges are exactly the outline of the set:
   Boundary == directed cell edges whose reverse is not a cell edge  (H3LinkedGeo). *)
EXTENDS Naturals, Integers, Sequences, FiniteSets
CONSTANTS CB,        \* sequence of cell boundaries, each a cyclic sequence of vertex ids (counter-clockwise)
          NB,        \* number of buckets
          HMax,      \* base hash values range over 0..HMax
          Lookup     \* "own" | "near"
Cyc(i, n) == ((i - 1) % n) + 1
Verts == UNION {{CB[c][j] : j \in 1..Len(CB[c])} : c \in 1..Len(CB)}
EdgesOf(c) == {<<CB[c][j], CB[c][Cyc(j + 1, Len(CB[c]))]>> : j \in 1..Len(CB[c])}
AllEdges == UNION {EdgesOf(c) : c \in 1..Len(CB)}
Boundary == {e \in AllEdges : <<e[2], e[1]>> \notin AllEdges}

\* only vertices that occur in more than one cell can be computed differently by different cells
Shared == {v \in Verts : Cardinality({cc \in 1..Len(CB) : v \in {CB[cc][k] : k \in 1..Len(CB[cc])}}) > 1}
VARIABLES HB, Off, c, j, nodes          \* nodes: set of stored edges [from, to, bucket]
vars == <<HB, Off, c, j, nodes>>
HV(cell, v) == HB[v] + (IF v \in Shared THEN Off[cell][v] ELSE 0)                       \* hash value (before the modulo) of v as computed by cell
Buckets(val) == IF Lookup = "own" THEN {val % NB}
                ELSE {val % NB, (val + 1) % NB} \cup (IF val > 0 THEN {(val - 1) % NB} ELSE {})
Init == /\ HB \in [Verts -> 0..HMax]
        /\ Off \in [1..Len(CB) -> [Shared -> {0, 1}]]
        /\ c = 1 /\ j = 1 /\ nodes = {}
\* process edge j of cell c
Step ==
  /\ c <= Len(CB)
  /\ LET n == Len(CB[c])   from == CB[c][j]   to == CB[c][Cyc(j + 1, n)]
         \* findNodeForEdge(graph, to, from): the reversed edge, looked up under the hash of `to` as this cell computed it
         hit == {x \in nodes : x.from = to /\ x.to = from /\ x.bucket \in Buckets(HV(c, to))}
     IN /\ nodes' = IF hit # {} THEN nodes \ hit
                    ELSE nodes \cup {[from |-> from, to |-> to, bucket |-> HV(c, from) % NB]}
        /\ IF j < n THEN j' = j + 1 /\ c' = c ELSE j' = 1 /\ c' = c + 1
  /\ UNCHANGED <<HB, Off>>
Done == c > Len(CB)
Next == Step \/ (Done /\ UNCHANGED vars)
Spec == Init /\ [][Next]_vars
OutlineExact == Done => {<<x.from, x.to>> : x \in nodes} = Boundary
=============================================================================
