SPECIFICATION Spec
CONSTANTS R = 1  K = 4
INVARIANT UnsafeClaims
CHECK_DEADLOCK FALSE
