CONSTANTS Origin = 4  MaxIn = 3  MaxTr = 2
SPECIFICATION Spec
INVARIANT Sound
INVARIANT Exact
INVARIANT ExactUnderPrecondition
INVARIANT Bounded
PROPERTY Terminates
