SPECIFICATION Spec
CONSTANTS R = 0  KLO = 5  KHI = 12
INVARIANT RingClaims
CHECK_DEADLOCK FALSE
