SPECIFICATION Spec
CONSTANT Parents <- MCParents
CONSTANT MaxN = 6
INVARIANT EmittedOK
INVARIANT DoneOK
PROPERTY Terminates
CHECK_DEADLOCK FALSE
