------------------------------ MODULE Trace_LocalIJ ------------------------------
(* Conformance of the code with the transcription H3LocalIJ (an implementation-shaped model): for recorded
   cellToLocalIj / localIjToCell calls on valid cells, the outcome class and - although the API does not promise them - the
   very coordinates / cell of the transcription.  A divergence is MODEL-DRIFT: it means the design-level results of
   MC_LocalIJ no longer speak about this code, not that a property is violated. *)
EXTENDS H3LocalIJ, TraceBase
VARIABLE l
vars == <<l>>
Ev == Tr[l]
E_FAILED == 1   E_CELL_INVALID == 5   E_PENTAGON == 9
Code(st) == CASE st = "ok" -> 0 [] st = "fail" -> E_FAILED [] st = "invalid" -> E_CELL_INVALID [] st = "pent" -> E_PENTAGON [] OTHER -> 99
Small(x) == x > -100000 /\ x < 100000
LocalIjSame(e) ==
  (ValidCell(e.o) /\ ValidCell(e.h) /\ Res(e.o) = Res(e.h)) =>
    LET m == CellToLocalIjk(CellOf(e.o), CellOf(e.h)) IN
    /\ e.r = Code(m[1])
    /\ (m[1] = "ok" => e.i = m[2][1] - m[2][3] /\ e.j = m[2][2] - m[2][3])
IjToCellSame(e) ==
  (ValidCell(e.o) /\ Small(e.i) /\ Small(e.j)) =>
    LET m == LocalIjkToCell(CellOf(e.o), Norm(<<e.i, e.j, 0>>)) IN
    /\ e.r = Code(m[1])
    /\ (m[1] = "ok" => e.c = WordOf(m[2]))
EvOK(e) == CASE e.e = "localIj" -> LocalIjSame(e) [] e.e = "ijToCell" -> IjToCellSame(e) [] OTHER -> TRUE
Init == l = 1
Next == l <= Len(Tr) /\ (IF EvOK(Ev) THEN TRUE ELSE FALSE) /\ l' = l + 1
Spec == Init /\ [][Next]_vars
=============================================================================
