------------------------------- MODULE Trace_LMP -------------------------------
(* C16: cellsToLinkedMultiPolygon / destroyLinkedMultiPolygon.  The library is built with the allocator seam
   (-DH3_ALLOC_PREFIX=verif_), so each execution is Reset, Call, Alloc* / Free*, Return(cellsToLinkedMultiPolygon),
   [lmp: the structure observed through the public LinkedGeoPolygon list], Call, Free*, Return(destroyLinkedMultiPolygon).
   The allocator contract is H3Alloc's (a successful call may retain memory, destroy must release all of it, an error
   return must leave nothing allocated); the structure is judged by H3LinkedGeo.OutlineOK. *)
EXTENDS H3LinkedGeo, H3Alloc, TraceBase
VARIABLE l
vars == <<l, live, nalloc, failed, plan, incall, base, fn>>
LmpOK(e) ==
  IF e.dom = 0 \/ ~PreOK(e.cells, e.cb) THEN TRUE                     \* outside the property's domain (reaches a pole, spans more than
                                                                      \* a hemisphere, not distinct valid cells): only the allocator contract applies
  ELSE /\ e.rc = 0
       /\ OutlineOK(e.cells, e.cb, e.polys)
       /\ AreaOK(e.cells, e.cb, e.ca, e.polys)                        \* area enclosed by each polygon = area of its cells

Ev == Tr[l]
Step ==
  \/ /\ Ev.e = "Reset" /\ ~incall /\ live = {} /\ UNCHANGED avars
  \/ /\ Ev.e = "Call"  /\ ACall(Ev.f, Ev.plan)
  \/ /\ Ev.e = "Alloc" /\ AAlloc(Ev.id, Ev.ok = 1)
  \/ /\ Ev.e = "Free"  /\ IF Ev.id = 0 THEN AFreeNull ELSE AFree(Ev.id)
  \/ /\ Ev.e = "Return" /\ AReturn(Ev.f, Ev.r, TRUE)
  \/ /\ Ev.e = "lmp" /\ (IF LmpOK(Ev) THEN TRUE ELSE FALSE) /\ UNCHANGED avars
Init == l = 1 /\ AInit
Next == l <= Len(Tr) /\ Step /\ l' = l + 1
Spec == Init /\ [][Next]_vars
=============================================================================
