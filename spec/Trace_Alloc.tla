------------------------------ MODULE Trace_Alloc ------------------------------
(* Trace specification binding the allocator contract to executions of the library built with
   -DH3_ALLOC_PREFIX=verif_ (the shim in harness/drv_alloc.c logs every malloc/calloc/free the
   library makes, under a fault plan).  One execution = Reset, Call, Alloc*/Free*, Return. *)
EXTENDS H3Alloc, TraceBase
VARIABLE l
vars == <<l, live, nalloc, failed, plan, incall, base, fn>>

Ev == Tr[l]
Step ==
  \/ /\ Ev.e = "Reset" /\ ~incall /\ live = {}                     \* nothing may survive an execution
     /\ UNCHANGED avars
  \/ /\ Ev.e = "Call"  /\ ACall(Ev.f, Ev.plan)
  \/ /\ Ev.e = "Alloc" /\ AAlloc(Ev.id, Ev.ok = 1)
  \/ /\ Ev.e = "Free"  /\ IF Ev.id = 0 THEN AFreeNull ELSE AFree(Ev.id)
  \/ /\ Ev.e = "Return"
     /\ AReturn(Ev.f, Ev.r, IF Has(Ev, "ref") THEN Ev.dig = Ev.ref /\ Ev.r = Ev.refr ELSE TRUE)
Init == l = 1 /\ AInit
Next == l <= Len(Tr) /\ Step /\ l' = l + 1
Spec == Init /\ [][Next]_vars
=============================================================================
