SPECIFICATION Spec
CONSTANT R = 3
INVARIANT RoundTrip
INVARIANT LatticeAdjacency
INVARIANT FacesOK
INVARIANT VerticesOK
CHECK_DEADLOCK FALSE
