------------------------------- MODULE Trace_LL -------------------------------
(* C02: latLngToCell returns the cell whose boundary contains the point.

   One event per call of latLngToCell.  Coordinates are doubles and TLA+ has no reals, so the driver projects them
   (DESIGN 4.3 / 6) onto integers in units of 1e-15 rad:
     dev     angular distance from the point to the boundary polygon of the returned cell (great-circle arcs between the
             cellToBoundary vertices; inside decided in the gnomonic chart at cellToLatLng), 0 when inside
     tol     the property's tolerance max(2e-12, 4e-15 / cos(lat))
     margin  for a point constructed inside a known cell: its depth inside that cell's boundary polygon
   and onto the flags fin (both coordinates finite) and canon (lat in [-pi/2, pi/2], lng in [-2pi, 2pi]).
   What is decided here, on integers and on the neighbour graph N of H3Grid:
     - the error contract (E_RES_DOMAIN for res outside 0..15, E_LATLNG_DOMAIN for non-finite input, no index written);
     - success, validity (the layout predicate) and resolution of the result for every finite input;
     - containment within the tolerance for canonical input;
     - exactness: a point deeper inside a cell than boundaries of adjacent cells can disagree (1e-12, C08) plus the
       tolerance must be given exactly that cell; a point built next to a cell's boundary must be given that cell or one of
       its neighbours in N. *)
EXTENDS H3Grid, TraceBase
VARIABLE l
vars == <<l>>

E_LATLNG_DOMAIN == 3
E_RES_DOMAIN == 4
Slack == 4000            \* 4e-12 rad: twice the 1e-12 within which shared boundaries of adjacent cells coincide (C08), both sides

NoIndex(e) == e.wr = 0 \/ e.out = NullWord

LLOK(e) ==
  IF e.res \notin 0..15 THEN e.rc = E_RES_DOMAIN /\ NoIndex(e)
  ELSE IF e.fin = 0 THEN e.rc = E_LATLNG_DOMAIN /\ NoIndex(e)
  ELSE /\ e.rc = 0
       /\ ValidCell(e.out)
       /\ Res(e.out) = e.res
       /\ (e.canon = 1 =>
             /\ Has(e, "dev") /\ e.dev <= e.tol
             /\ (Has(e, "cell") /\ e.margin > 2 * e.tol + Slack => e.out = e.cell)
             /\ (Has(e, "near") => (e.out = e.near \/ CellOf(e.out) \in N(CellOf(e.near)))))

Ev == Tr[l]
Init == l = 1
Next == l <= Len(Tr) /\ Ev.e = "ll" /\ LLOK(Ev) /\ l' = l + 1
Spec == Init /\ [][Next]_vars
=============================================================================
