SPECIFICATION Spec
CONSTANT Variant = "fixed"
INVARIANT Contract
INVARIANT NoStuckCall
CHECK_DEADLOCK FALSE
