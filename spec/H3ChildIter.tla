----------------------------- MODULE H3ChildIter -----------------------------
(* src/h3lib/lib/iterators.c as a state machine: the child iterator (iterInitParent /
   iterStepChild) with its moving skip digit, and the resolution iterator on top of it.
   TLC checks that the machine refines the reference semantics of H3Hierarchy:
     - every emitted cell is a valid descendant of the parent at the child resolution,
     - emitted cells strictly increase in index order,
     - the first is the centre child,
     - on termination the number emitted equals ChildCount (so, being distinct valid children,
       they are exactly the children), and the rank of each equals its position,
     - the iterator terminates (the state graph is finite and acyclic; deadlock = done). *)
EXTENDS H3Hierarchy, TLC

CONSTANTS Parents,   \* set of parent cells (records) to start from
          MaxN       \* maximal depth childRes - parentRes

VARIABLES parent, cres,
          cur,       \* the iterator's h as a cell record (meaningless once done)
          done,      \* it->h == H3_NULL
          skip,      \* _skipDigit
          cnt,       \* number of cells emitted so far (history)
          prev       \* previous emitted cell (history); equals cur for the first one
vars == <<parent, cres, cur, done, skip, cnt, prev>>

Init ==
  /\ parent \in Parents
  /\ cres \in parent.r..(IF parent.r + MaxN > 15 THEN 15 ELSE parent.r + MaxN)
  /\ cur = CenterChildC(parent, cres)                  \* _zeroIndexDigits + set resolution
  /\ done = FALSE
  /\ skip = IF IsPentC(CenterChildC(parent, cres)) THEN cres ELSE -1
  /\ cnt = 1 /\ prev = CenterChildC(parent, cres)

\* _incrementResDigit on the digit string: +1 at position i, binary carry into i-1 when the
\* digit was 7 (position 0 stands for the base-cell field; a carry into it is harmless here
\* because the iterator nulls itself in that case)
RECURSIVE Inc(_, _)
Inc(ds, i) == IF i = 0 THEN ds
              ELSE IF ds[i] = 7 THEN Inc([ds EXCEPT ![i] = 0], i - 1)
              ELSE [ds EXCEPT ![i] = ds[i] + 1]

\* the for-loop of iterStepChild: returns <<digits, skip, exhausted>>
RECURSIVE Loop(_, _, _, _)
Loop(ds, i, sk, pres) ==
  IF i < pres THEN <<ds, sk, FALSE>>
  ELSE IF i = pres THEN <<ds, -1, TRUE>>
  ELSE IF i = sk /\ ds[i] = 1 THEN <<Inc(ds, i), sk - 1, FALSE>>
  ELSE IF ds[i] = 7 THEN Loop(Inc(ds, i), i - 1, sk, pres)
  ELSE <<ds, sk, FALSE>>

Step ==
  /\ ~done
  /\ LET r == Loop(Inc(cur.d, cres), cres, skip, parent.r)
     IN /\ cur' = [cur EXCEPT !.d = r[1]]
        /\ skip' = r[2]
        /\ done' = r[3]
        /\ cnt' = IF r[3] THEN cnt ELSE cnt + 1
  /\ prev' = cur
  /\ UNCHANGED <<parent, cres>>
Next == Step
Spec == Init /\ [][Next]_vars /\ WF_vars(Next)

\* ---- refinement of the reference semantics -------------------------------------------------
EmittedOK ==
  ~done =>
    /\ ValidC(cur) /\ cur.r = cres /\ IsDescendant(cur, parent) /\ ParentC(cur, parent.r) = parent
    /\ (cnt > 1 => WordLess(WordOf(prev), WordOf(cur)))
    /\ (cnt = 1 => cur = CenterChildC(parent, cres))
    /\ RankOfChild(parent, cur) = BOfSmall(cnt - 1)                        \* position = rank
    /\ Unrank(parent, cres - parent.r, BOfSmall(cnt - 1)) = SubSeq(cur.d, parent.r + 1, cres)
DoneOK == done => BOfSmall(cnt) = ChildCount(parent, cres - parent.r)
Terminates == <>done
=============================================================================
