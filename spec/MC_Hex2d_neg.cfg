CONSTANTS D = 60  K = 2
SPECIFICATION Spec
INVARIANT CorrectNeg
CHECK_DEADLOCK FALSE
