CONSTANTS Pent <- PentHex  Target = 1  Assume = "both"
SPECIFICATION Spec
INVARIANT Ordered
INVARIANT Exact
PROPERTY Terminates
