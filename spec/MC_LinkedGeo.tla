------------------------------ MODULE MC_LinkedGeo ------------------------------
(* Design-level check of the outline semantics of H3LinkedGeo (C16) on the model's own graph, without coordinates.

   The corners of the tiling are the triangles of the neighbour graph (three mutually adjacent cells; DESIGN 3.8).  For a
   set S of cells, a boundary edge is an adjacent pair (a in S, b not in S); it joins the two corners that contain both
   cells.  Claims checked for every S of at most MaxSize cells drawn from the 2-disk of a pentagon and of a hexagon of
   resolution 0 (the whole sphere of 122 cells is the universe, so complements are exact):
     (1) every corner meets 0 or 2 boundary edges  -> the boundary is a disjoint union of simple cycles, uniquely;
     (2) the number of cycles is  components(S) + components(complement) - 1   (Euler's formula on the sphere);
     (3) all cells on the inner side of one cycle lie in one component of S.
   (1) and (3) are what lets OutlineOK demand "exactly the cycles of Boundary, grouped by component". *)
EXTENDS H3Grid, FiniteSets, TLC
CONSTANTS Origin, MaxSize
Base(b) == [r |-> 0, b |-> b, d |-> <<>>]
All == {Base(b) : b \in 0..121}
\* the adjacency of the whole sphere is computed once, in Init, and carried as a (constant) variable: TLC does not cache
\* constant definitions that involve recursive operators
VARIABLES S, Adj
Universe == N(Base(Origin)) \cup UNION {N(x) : x \in N(Base(Origin))} \cup {Base(Origin)}
Corners == UNION {UNION {{{a, b, c} : c \in Adj[a] \cap Adj[b]} : b \in Adj[a]} : a \in All}

RECURSIVE GrowIn(_, _, _)
GrowIn(X, seen, frontier) == IF frontier = {} THEN seen
                             ELSE LET nxt == ((UNION {Adj[c] : c \in frontier}) \cap X) \ seen IN GrowIn(X, seen \cup nxt, nxt)
RECURSIVE CompsIn(_, _)
CompsIn(X, rest) == IF rest = {} THEN {} ELSE LET c == CHOOSE x \in rest : TRUE   K == GrowIn(X, {c}, {c}) IN {K} \cup CompsIn(X, rest \ K)
Comps(X) == CompsIn(X, X)

Init == /\ Adj = [c \in All |-> N(c)]
        /\ S \in {X \in SUBSET Universe : Cardinality(X) \in 1..MaxSize}
Next == UNCHANGED <<S, Adj>>
Spec == Init /\ [][Next]_<<S, Adj>>

BEdges == {e \in S \X (All \ S) : e[2] \in Adj[e[1]]}
CornersOf(e) == {{e[1], e[2], c} : c \in Adj[e[1]] \cap Adj[e[2]]}
\* cycles = connected components of the boundary edges under "share a corner"
RECURSIVE GrowE(_, _, _)
GrowE(E, seen, frontier) == IF frontier = {} THEN seen
                            ELSE LET nxt == {e \in E \ seen : \E f \in frontier : CornersOf(e) \cap CornersOf(f) # {}} IN GrowE(E, seen \cup nxt, nxt)
RECURSIVE CyclesOf(_, _)
CyclesOf(E, rest) == IF rest = {} THEN {} ELSE LET e == CHOOSE x \in rest : TRUE   K == GrowE(E, {e}, {e}) IN {K} \cup CyclesOf(E, rest \ K)
Cycles == CyclesOf(BEdges, BEdges)

TwoPerCorner == /\ \A e \in BEdges : Cardinality(CornersOf(e)) = 2
                /\ \A t \in UNION {CornersOf(e) : e \in BEdges} : Cardinality({e \in BEdges : t \in CornersOf(e)}) = 2
Euler == Cardinality(Cycles) = Cardinality(Comps(S)) + Cardinality(Comps(All \ S)) - 1
OneComponentPerCycle == \A K \in Cycles : \E C \in Comps(S) : \A e \in K : e[1] \in C
OutlineSemantics == TwoPerCorner /\ Euler /\ OneComponentPerCycle
\* 240 corners on the sphere of 122 base cells (2N - 4), each shared by exactly three cells
CornerCount == Cardinality(Corners) = 240
=============================================================================
