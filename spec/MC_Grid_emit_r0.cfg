SPECIFICATION Spec
CONSTANT R = 0
INVARIANT GridInv
INVARIANT EmitCell
CHECK_DEADLOCK FALSE
