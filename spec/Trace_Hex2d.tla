------------------------------ MODULE Trace_Hex2d ------------------------------
(* Binds the rounding model H3Hex2d to the code: every recorded call of _hex2dToCoordIJK on an exact lattice point
   (denominator D, skew coordinates p/D, q/D, signs sx, sy) must return, in ijk+ normal form, a hexagon centre at minimum
   distance from the point (any of them on a tie), and must agree with the transcription Impl off the ties. *)
EXTENDS H3Hex2d, TraceBase
VARIABLE l
vars == <<l>>
Ev == Tr[l]
HexOK(e) == /\ RoundsToNearest(e.D, e.p, e.q, e.sx, e.sy, e.t)
            /\ (Cardinality(Nearest(e.D, e.p, e.q, e.sx, e.sy)) = 1 => e.t = Impl(e.D, e.p, e.q, e.sx, e.sy))
Init == l = 1
Next == l <= Len(Tr) /\ (\/ Ev.e = "hex2d" /\ HexOK(Ev)
                         \/ Ev.e = "hex2dAbsent") /\ l' = l + 1
Spec == Init /\ [][Next]_vars
=============================================================================
