--------------------------- MODULE MC_GridUnsafeWrap ---------------------------
(* The hollow ring walk for rings so large that they run round the globe: every cell of resolution R as origin,
   k = KLO..KHI.  The closure test of gridRingUnsafe compares only the end of the walk with its start; a ring that
   encloses six or more pentagons without touching one has a total angular deficit of a full turn and closes although it is
   not the breadth-first ring.  This configuration is expected to VIOLATE RingClaim on the pinned design (known finding
   C05/gridRingUnsafe, see known_findings.json); it is run by the check to keep the design-level counterexample alive. *)
EXTENDS H3GridUnsafe, TLC
CONSTANTS R, KLO, KHI
VARIABLE c
Init == c = [r |-> R, b |-> 0, d |-> SubSeq(<<0,0,0,0,0,0,0,0,0,0,0,0,0,0,0>>, 1, R)]
Next == \E dd \in Dirs : NbrOk(c, dd) /\ c' = NbrCell(c, dd)
Spec == Init /\ [][Next]_c
RingClaims == \A k \in KLO..KHI : RingClaim(c, k)
=============================================================================
