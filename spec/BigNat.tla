------------------------------- MODULE BigNat -------------------------------
(* Natural numbers beyond TLC's 32-bit integers: fixed-width little-endian limb tuples in
   base 7^5 = 16807 (limb products stay below 2^31).  Five limbs cover 0 .. 16807^5 - 1
   (> 2^63), enough for every count and position H3 can return.  *)
EXTENDS Naturals, Sequences

BB == 16807
BL == 5
BZero == <<0, 0, 0, 0, 0>>
BOne  == <<1, 0, 0, 0, 0>>
IsBig(x) == Len(x) = BL /\ \A i \in 1..BL : x[i] \in 0..(BB - 1)
BOfSmall(n) == <<n % BB, (n \div BB) % BB, n \div (BB * BB), 0, 0>>      \* n < 2^31

RECURSIVE BAddFrom(_, _, _, _)
BAddFrom(x, y, i, c) ==          \* limbs i.. of x + y + carry c ; overflow beyond limb BL is dropped
  IF i > BL THEN <<>>
  ELSE LET s == x[i] + y[i] + c IN <<s % BB>> \o BAddFrom(x, y, i + 1, s \div BB)
BAdd(x, y) == BAddFrom(x, y, 1, 0)

RECURSIVE BMulSFrom(_, _, _, _)
BMulSFrom(x, k, i, c) ==         \* x * k for a small k (k < 2^14)
  IF i > BL THEN <<>>
  ELSE LET s == x[i] * k + c IN <<s % BB>> \o BMulSFrom(x, k, i + 1, s \div BB)
BMulS(x, k) == BMulSFrom(x, k, 1, 0)

RECURSIVE BLessFrom(_, _, _)
BLessFrom(x, y, i) == IF i = 0 THEN FALSE
                      ELSE IF x[i] # y[i] THEN x[i] < y[i] ELSE BLessFrom(x, y, i - 1)
BLess(x, y) == BLessFrom(x, y, BL)
BLeq(x, y) == x = y \/ BLess(x, y)

RECURSIVE BSubFrom(_, _, _, _)
BSubFrom(x, y, i, b) ==          \* x - y for x >= y
  IF i > BL THEN <<>>
  ELSE LET s == x[i] - y[i] - b IN
       IF s < 0 THEN <<s + BB>> \o BSubFrom(x, y, i + 1, 1) ELSE <<s>> \o BSubFrom(x, y, i + 1, 0)
BSub(x, y) == BSubFrom(x, y, 1, 0)

\* 7^m as a BigNat: one limb holds five base-7 digits
Pow7Small == <<1, 7, 49, 343, 2401>>
BPow7(m) == LET q == m \div 5   v == Pow7Small[(m % 5) + 1]
            IN << IF q = 0 THEN v ELSE 0, IF q = 1 THEN v ELSE 0, IF q = 2 THEN v ELSE 0, IF q = 3 THEN v ELSE 0, 0 >>

\* sum of a sequence of BigNats
RECURSIVE BSum(_)
BSum(s) == IF s = <<>> THEN BZero ELSE BAdd(Head(s), BSum(Tail(s)))
=============================================================================
