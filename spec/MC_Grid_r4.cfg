SPECIFICATION Spec
CONSTANT R = 4
INVARIANT GridInv
CHECK_DEADLOCK FALSE
