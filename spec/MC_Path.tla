--------------------------------- MODULE MC_Path ---------------------------------
EXTENDS H3Path
CONSTANT R
VARIABLES a, b
vars == <<a, b>>
Ball(c, r) == {q \in ((c[1] - r)..(c[1] + r)) \X ((c[2] - r)..(c[2] + r)) \X ((c[3] - r)..(c[3] + r)) : q[1] + q[2] + q[3] = 0 /\ CubeDist(c, q) <= r}
Init == a \in Ball(<<0, 0, 0>>, 1) /\ b \in Ball(a, R)
Next == UNCHANGED vars
Spec == Init /\ [][Next]_vars
L == Line(a, b)
EndsOK == L[1] = a /\ L[Len(L)] = b /\ Len(L) = CubeDist(a, b) + 1
OnLattice == \A n \in 1..Len(L) : L[n][1] + L[n][2] + L[n][3] = 0
Contiguous == \A n \in 1..(Len(L) - 1) : CubeDist(L[n], L[n + 1]) = 1
\* every sample is within one step of the exact point: distance to the true point < 1 in every coordinate
Near == \A n \in 1..Len(L) : LET d == CubeDist(a, b) IN d = 0 \/
          \A q \in 1..3 : Abs(L[n][q] * d - (a[q] * d + (b[q] - a[q]) * (n - 1))) < d
\* conversions are inverse on the lattice
ConvOK == ToCube(FromCube(a)) = a /\ ToCube(FromCube(b)) = b
=============================================================================
