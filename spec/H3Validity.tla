------------------------------ MODULE H3Validity ------------------------------
(* isValidCell as implemented (src/h3lib/lib/h3Index.c:131-290) against the documented
   layout predicate, for ALL 2^64 words.

   The implementation uses three word-parallel bit tricks.  Each is a transducer over the
   fifteen 3-bit digit groups, read from the lowest group (position 15) to the highest
   (position 1):
     _hasAny7UptoRes  :  h & MHI & (~h - MLO)  -- a ripple-borrow subtraction; the state carried
                         from group to group is the borrow bit;
     _hasAll7AfterRes :  (~h << (19+3res)) >> (19+3res) == 0, guarded by res < 15;
     _hasDeletedSubsequence : index of the highest set bit of the low 45 bits, mod 3, and the
                         128-entry pentagon array.
   This module is that transducer.  A behaviour picks top byte, resolution, base cell and then
   one digit per step; the digits chosen so far are history (t8, digs) hidden by the VIEW, so
   the state space TLC exhausts is the finite product automaton while the behaviours range
   over every 64-bit word.  The invariant at the end of the word is
        implementation verdict  =  documented predicate.
   In -simulate mode the same module emits complete words with the spec's verdict; they are
   replayed into the real isValidCell (model -> code). *)
EXTENDS Naturals, Integers, Sequences, FiniteSets, TLC
CONSTANT Kinds

VARIABLES
  t8,        \* history: the top 8 bits chosen (0..255)
  digs,      \* history: digits chosen so far, as a function position -> digit
  fault,     \* history, emit mode only: positions at which an out-of-class digit is planted
  lane,      \* history, emit mode only: makes equally-shaped choices distinct so that simulation
             \* (uniform over distinct successors) draws the common case more often
  kind,      \* "cell": the word is judged by isValidCell; "edge": by isValidDirectedEdge
  dir1,      \* edge only: the reserved field (direction) is 1 (K axis)
  res, bc,   \* the two fields every later step depends on
  implTop, specTop,
  p,         \* next position to read (15 down to 1); 0 = word complete
  borrow,    \* ripple borrow of (~h - MLO) entering group p
  implAny7,  \* OR over groups read so far of (bit 2 of h) & (bit 2 of ~h - MLO)
  implAll7,  \* every kept bit of ~h read so far is 0
  hiMod,     \* index mod 3 of the highest set bit read so far among the low 45 bits; 3 = none
  specAny7,  \* some position <= res read so far holds 7
  specAll7,  \* every position > res read so far holds 7
  specLead   \* the digit of the lowest-numbered non-zero position <= res read so far (0 = none)

vars == <<t8, digs, fault, lane, kind, dir1, res, bc, implTop, specTop, p, borrow, implAny7, implAll7, hiMod,
          specAny7, specAll7, specLead>>
view == <<kind, dir1, res, bc, implTop, specTop, p, borrow, implAny7, implAll7, hiMod,
          specAny7, specAll7, specLead>>

PentagonBaseCells == {4, 14, 24, 38, 49, 58, 63, 72, 83, 97, 107, 117}
\* static const bool isBaseCellPentagonArr[128] (h3Index.c:244): designated initialisers
PentArr == [b \in 0..127 |-> b \in {4, 14, 24, 38, 49, 58, 63, 72, 83, 97, 107, 117}]

Bit(d, i) == (d \div (2 ^ i)) % 2

Init ==
  /\ t8 \in 0..255
  /\ kind \in Kinds
  /\ res \in 0..15
  /\ bc \in 0..127
  /\ dir1 = (kind = "edge" /\ t8 % 8 = 1)
  /\ implTop = IF kind = "cell" THEN t8 = 8                     \* h >> 56 == 0b00001000
               ELSE \* isValidDirectedEdge: direction 1..6, mode 2, then isValidCell(origin) where the origin is
                    \* the edge with mode := 1 and reserved := 0 (its high bit is kept)
                    /\ ~(t8 % 8 <= 0 \/ t8 % 8 >= 7)
                    /\ (t8 \div 8) % 16 = 2
                    /\ (t8 \div 128) * 128 + 8 = 8
  /\ specTop = IF kind = "cell" THEN (t8 \div 128 = 0 /\ (t8 \div 8) % 16 = 1 /\ t8 % 8 = 0)   \* high 0, mode 1, reserved 0
               ELSE (t8 \div 128 = 0 /\ (t8 \div 8) % 16 = 2 /\ t8 % 8 \in 1..6)
  /\ digs = <<>> /\ fault = {} /\ lane = 0
  /\ p = 15 /\ borrow = 0
  /\ implAny7 = FALSE /\ implAll7 = TRUE /\ hiMod = 3
  /\ specAny7 = FALSE /\ specAll7 = TRUE /\ specLead = 0

\* read digit d at position p
Step(d) ==
  /\ p \in 1..15
  /\ LET dz == IF p <= res THEN d ELSE 0            \* h >>= 3*(15-res); h <<= 3*(15-res)
         x  == 7 - dz                               \* the group of ~h
         v  == x - 1 - borrow                       \* minus the MLO group (001) minus borrow in
         b1 == IF v < 0 THEN 1 ELSE 0
         r  == v + 8 * b1                           \* the group of (~h - MLO)
         t  == Bit(dz, 2) = 1 /\ Bit(r, 2) = 1      \* & MHI keeps bit 2 of the group
         \* _hasAll7AfterRes: bits kept by the shifts are those below 64 - (19 + 3*res)
         kept == 64 - (19 + 3 * res)
         lowbit == 3 * (15 - p)
         grpZero == \A i \in 0..2 : (lowbit + i < kept) => Bit(7 - d, i) = 0
         top == IF d >= 4 THEN 2 ELSE IF d >= 2 THEN 1 ELSE 0    \* highest set bit of a non-zero group
     IN /\ borrow' = b1
        /\ implAny7' = (implAny7 \/ t)
        /\ implAll7' = (implAll7 /\ (IF res < 15 THEN grpZero ELSE TRUE))
        /\ hiMod' = IF d # 0 THEN (lowbit + top) % 3 ELSE hiMod
        /\ specAny7' = (specAny7 \/ (p <= res /\ d = 7))
        /\ specAll7' = (specAll7 /\ (p > res => d = 7))
        /\ specLead' = IF p <= res /\ d # 0 THEN d ELSE specLead
  /\ digs' = <<d>> \o digs
  /\ p' = p - 1
  /\ UNCHANGED <<t8, fault, lane, kind, dir1, res, bc, implTop, specTop>>

Next == \E d \in 0..7 : Step(d)
Spec == Init /\ [][Next]_vars

\* _isBaseCellPentagon(bc) && leading non-zero digit == 0, as isPentagon computes it
ImplIsPentagon == bc < 122 /\ PentArr[bc] /\ specLead = 0
ImplValid ==
  /\ implTop
  /\ ~(kind = "edge" /\ ImplIsPentagon /\ dir1)
  /\ ~(bc >= 122)
  /\ ~implAny7
  /\ implAll7
  /\ ~(PentArr[bc] /\ hiMod # 3 /\ hiMod = 0)      \* h == 0 -> false; else firstOne % 3 == 0

SpecValid ==
  /\ specTop
  /\ bc < 122
  /\ ~specAny7                                     \* digits 1..res are 0..6
  /\ specAll7                                      \* digits res+1..15 are 7
  /\ (bc \in PentagonBaseCells => specLead # 1)
  /\ (kind = "edge" => ~(bc \in PentagonBaseCells /\ specLead = 0 /\ dir1))    \* direction 1 does not exist on a pentagon

Agree == (p = 0) => (ImplValid = SpecValid)

\* non-vacuity: both verdicts occur, a borrow does ripple, a "misidentified" group occurs
TypeOK == /\ p \in 0..18 /\ borrow \in {0, 1} /\ hiMod \in 0..3 /\ specLead \in 0..7

\* ---- emit mode (tlc -simulate): near-valid words, with at most two planted faults --------
InitE ==
  /\ t8 = 8 /\ kind = "cell" /\ dir1 = FALSE /\ res \in 0..15 /\ bc = 0
  /\ implTop = TRUE /\ specTop = TRUE
  /\ digs = <<>> /\ fault = {} /\ lane = 0
  /\ p = 18 /\ borrow = 0
  /\ implAny7 = FALSE /\ implAll7 = TRUE /\ hiMod = 3
  /\ specAny7 = FALSE /\ specAll7 = TRUE /\ specLead = 0
\* set-up steps (kept small so that simulation does not enumerate a huge initial-state set)
SetupTop ==
  /\ p = 18 /\ p' = 17
  /\ \E ln \in 0..11 :
       /\ lane' = ln
       /\ t8' = IF ln < 7 THEN 8 ELSE <<8 + 128, 0, 16, 9, 24>>[ln - 6]
  /\ implTop' = (t8' = 8)
  /\ specTop' = (t8' \div 128 = 0 /\ (t8' \div 8) % 16 = 1 /\ t8' % 8 = 0)
  /\ bc' \in PentagonBaseCells \cup {0, 3, 5, 15, 23, 64, 90, 100, 119, 120, 121, 122, 127}
  /\ UNCHANGED <<digs, fault, kind, dir1, res, borrow, implAny7, implAll7, hiMod, specAny7, specAll7, specLead>>
SetupFault ==
  /\ p \in {17, 16} /\ p' = p - 1
  /\ \E f \in 0..40 : lane' = f /\ fault' = IF f = 0 \/ f > 15 THEN fault ELSE fault \cup {f}
  /\ UNCHANGED <<t8, digs, kind, dir1, res, bc, implTop, specTop, borrow, implAny7, implAll7, hiMod,
                 specAny7, specAll7, specLead>>
InClass(d) == IF p <= res THEN d \in 0..6 ELSE d = 7
NextE == \/ SetupTop \/ SetupFault
         \/ p <= 15 /\ \E d \in 0..7 : Step(d) /\ ((p \in fault) = ~InClass(d))
SpecE == InitE /\ [][NextE]_vars

\* model -> code: emit each completed word with the specification's verdict (simulate mode)
Emit == (p = 0) => PrintT(<<"WORD", t8, res, bc, digs, SpecValid>>)
=============================================================================
