------------------------------- MODULE MC_Alloc -------------------------------
(* The allocation / release control flow of the functions C17 names, as small programs over the
   allocator actions of H3Alloc, explored by TLC for every path and every fault plan.

   A program is a sequence of instructions
       A(name, onFail)  attempt an allocation; if refused continue with onFail instead of the rest
       F(name)          release the block bound to name
       R(code)          return
   and a function is the set of programs (paths) its branches allow.  The transcription follows
   h3Index.c:465-672 (compactCells), algos.c:221-249 (gridDiskDistances), directedEdge.c:38-123
   (areNeighborCells), algos.c:893-1066 (polygonToCells), polyfill.c (iterator-owned bounding boxes).
   Variant = "fixed" is the tree after the repair of the swallowed inner failure, Variant = "swallow"
   the pinned tree before it (kept as the negative control: TLC must find the contract violation). *)
EXTENDS H3Alloc, TLC, Integers
CONSTANT Variant

A(n, f) == [op |-> "A", n |-> n, fail |-> f]
F(n) == [op |-> "F", n |-> n]
R(c) == [op |-> "R", c |-> c]
OK == 0   EALLOC == 13   EOTHER == 5   EBOUNDS == 14

\* ---- compactCells: rounds 0..3, exits --------------------------------------------------------
CompactTail == <<F("rem"), F("hash")>>
RECURSIVE CompactRounds(_)
CompactRounds(n) ==      \* set of instruction sequences for n more full rounds followed by an exit
  LET exits == { CompactTail \o <<R(EOTHER)>>,                       \* reserved bits / parent error / duplicate
                 CompactTail \o <<R(OK)>> }                          \* maxCompactableCount = 0 (break) or nothing left
      never == { <<A("comp", CompactTail \o <<R(EALLOC)>>), F("comp")>> \o CompactTail \o <<R(1)>> }   \* NEVER() exits
  IN IF n = 0 THEN exits \cup never
     ELSE exits \cup {<<A("comp", CompactTail \o <<R(EALLOC)>>), F("comp")>> \o rest : rest \in CompactRounds(n - 1)}
CompactCells ==
  {<<R(OK)>>} \cup                                                    \* numHexes = 0 or resolution 0
  {<<A("rem", <<R(EALLOC)>>), A("hash", <<F("rem"), R(EALLOC)>>)>> \o rest : rest \in CompactRounds(3)}

\* ---- gridDiskDistances / gridDisk ------------------------------------------------------------------
\* inner(resultVar): programs of one gridDisk call, ending without R; the code it returned is known statically per path
DiskPaths == { [prog |-> <<>>, code |-> OK, fcode |-> OK],                                   \* fast algorithm succeeded
               [prog |-> <<>>, code |-> EOTHER, fcode |-> EOTHER],                            \* k < 0 etc.
               [prog |-> <<A("dist", <<>>), F("dist")>>, code |-> OK, fcode |-> EALLOC],       \* fallback, scratch array
               [prog |-> <<A("dist", <<>>), F("dist")>>, code |-> EOTHER, fcode |-> EALLOC] }  \* fallback, recursion failed
\* a disk path used as a complete function: if the allocation is refused the function returns E_MEMORY_ALLOC at once
GridDisk == { IF p.prog = <<>> THEN <<R(p.code)>>
              ELSE <<A("dist", <<R(EALLOC)>>), F("dist"), R(p.code)>> : p \in DiskPaths }

\* ---- areNeighborCells ---------------------------------------------------------------------------------
AreNeighborCells ==
  {<<R(OK)>>, <<R(EOTHER)>>} \cup                                                        \* mode / resolution / sibling short cuts
  { IF p.prog = <<>> THEN (IF Variant = "fixed" THEN <<R(p.code)>> ELSE <<R(OK)>>)
    ELSE IF Variant = "fixed"
         THEN <<A("dist", <<R(EALLOC)>>), F("dist"), R(p.code)>>
         ELSE <<A("dist", <<R(OK)>>), F("dist"), R(OK)>>                                   \* return code of gridDisk ignored
    : p \in DiskPaths }

\* ---- polygonToCells ------------------------------------------------------------------------------------------
PolyFree == <<F("search"), F("found"), F("bboxes")>>
\* the flood fill makes m inner gridDisk(searchHex, 1) calls; each may or may not fall back to the allocating algorithm
RECURSIVE Fill(_)
Fill(m) ==
  IF m = 0 THEN {PolyFree \o <<R(OK)>>}
  ELSE {rest : rest \in Fill(m - 1)} \cup                                                   \* no allocation in this call
       { <<A("ring", IF Variant = "fixed" THEN PolyFree \o <<R(EALLOC)>> ELSE rest), F("ring")>> \o rest : rest \in Fill(m - 1) }
PolygonToCells ==
  {<<R(15)>>} \cup
  { <<A("bboxes", <<R(EALLOC)>>)>> \o t : t \in
      { <<F("bboxes"), R(EOTHER)>> } \cup                                                  \* size estimate failed
      { <<A("search", <<F("bboxes"), R(EALLOC)>>), A("found", <<F("bboxes"), F("search"), R(EALLOC)>>)>> \o u : u \in
          {PolyFree \o <<R(EOTHER)>>} \cup Fill(3) } }                                      \* edge tracing failed | flood fill

\* ---- polygonToCellsExperimental / maxPolygonToCellsSizeExperimental: iterator-owned bounding boxes ----------------
PolyExperimental ==
  { <<R(4)>>, <<R(15)>> } \cup                                                              \* bad resolution / flags: nothing allocated
  { <<A("bb", <<R(EALLOC)>>), F("bb"), R(c)>> : c \in {OK, EBOUNDS, EOTHER} }                \* exhausted | capacity exceeded | iterator error

Functions == [ compactCells |-> CompactCells, gridDisk |-> GridDisk, areNeighborCells |-> AreNeighborCells,
               polygonToCells |-> PolygonToCells, polygonToCellsExperimental |-> PolyExperimental,
               maxPolygonToCellsSizeExperimental |-> PolyExperimental ]
Plans == {[kind |-> "never", i |-> 0]} \cup {[kind |-> k, i |-> i] : k \in {"nth", "from"}, i \in 1..7}

VARIABLES pc,     \* remaining instructions of the running call
          env,    \* name -> block id
          nextid, ret
vars == <<pc, env, nextid, ret, live, nalloc, failed, plan, incall, base, fn>>

Init == /\ AInit /\ pc = <<>> /\ env = [n \in {"rem", "hash", "comp", "dist", "ring", "bboxes", "search", "found", "bb"} |-> 0]
        /\ nextid = 1 /\ ret = -1
Call == /\ ~incall /\ ret = -1
        /\ \E f \in DOMAIN Functions : \E p \in Functions[f] : \E pl \in Plans :
              ACall(f, pl) /\ pc' = p
        /\ UNCHANGED <<env, nextid, ret>>
Step ==
  /\ incall /\ pc # <<>>
  /\ LET i == Head(pc) IN
     CASE i.op = "A" ->
            LET ok == ~ShouldFail(plan, nalloc + 1) IN
            /\ AAlloc(nextid, ok)
            /\ IF ok THEN env' = [env EXCEPT ![i.n] = nextid] /\ nextid' = nextid + 1 /\ pc' = Tail(pc)
                     ELSE env' = env /\ nextid' = nextid /\ pc' = i.fail
            /\ UNCHANGED ret
       [] i.op = "F" -> /\ AFree(env[i.n]) /\ pc' = Tail(pc) /\ UNCHANGED <<env, nextid, ret>>
       [] i.op = "R" -> /\ ret' = i.c /\ pc' = <<>> /\ incall' = FALSE
                        /\ UNCHANGED <<env, nextid, live, nalloc, failed, plan, base, fn>>
Next == Call \/ Step
Spec == Init /\ [][Next]_vars

\* the contract of H3Alloc.AReturn, as a state predicate on the returning state
Contract ==
  (~incall /\ ret # -1) =>
     /\ live = base
     /\ (failed /\ fn \in MustReportFailure => ret = E_MEMORY_ALLOC)
\* a release of a block that is not live would make Step disabled: detect it as a stuck call
NoStuckCall == (incall /\ pc # <<>> /\ Head(pc).op = "F") => env[Head(pc).n] \in live
OneCall == ret = -1 \/ ~incall
=============================================================================
