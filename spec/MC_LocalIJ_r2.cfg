SPECIFICATION Spec
CONSTANTS R = 2  K = 3
INVARIANT LocalIJClaims
CHECK_DEADLOCK FALSE
