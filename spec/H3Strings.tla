------------------------------ MODULE H3Strings ------------------------------
(* String form of an index (C20): lower-case, unpadded hexadecimal.
   Strings are sequences of byte values.  ToHex / FromHex are defined nibble-wise on the 4-tuple
   word encoding; the machine below reads the 16 nibbles of an arbitrary word from the most
   significant one and TLC checks on its (finite) product automaton that parsing the formatted
   string gives the word back, for every one of the 16^16 words. *)
EXTENDS Naturals, Sequences, TLC

\* bit i (0..63) of the word <<t, w1, w2, w3>>
WBit(w, i) == IF i >= 45 THEN (w[1] \div (2 ^ (i - 45))) % 2
              ELSE IF i >= 30 THEN (w[2] \div (2 ^ (i - 30))) % 2
              ELSE IF i >= 15 THEN (w[3] \div (2 ^ (i - 15))) % 2
              ELSE (w[4] \div (2 ^ i)) % 2
\* nibble k, k = 1 most significant .. 16 least significant
Nib(w, k) == LET lo == 4 * (16 - k) IN 8 * WBit(w, lo + 3) + 4 * WBit(w, lo + 2) + 2 * WBit(w, lo + 1) + WBit(w, lo)
Nibbles(w) == << Nib(w,1), Nib(w,2), Nib(w,3), Nib(w,4), Nib(w,5), Nib(w,6), Nib(w,7), Nib(w,8),
                 Nib(w,9), Nib(w,10), Nib(w,11), Nib(w,12), Nib(w,13), Nib(w,14), Nib(w,15), Nib(w,16) >>
HexChar(n) == IF n < 10 THEN 48 + n ELSE 87 + n                 \* '0'..'9', 'a'..'f'
IsHexDigit(c) == c \in 48..57 \/ c \in 97..102 \/ c \in 65..70
HexVal(c) == IF c \in 48..57 THEN c - 48 ELSE IF c \in 97..102 THEN c - 87 ELSE c - 55

RECURSIVE DropLeadingZeros(_)
DropLeadingZeros(ns) == IF Len(ns) > 1 /\ Head(ns) = 0 THEN DropLeadingZeros(Tail(ns)) ELSE ns
RECURSIVE MapHex(_)
MapHex(ns) == IF ns = <<>> THEN <<>> ELSE <<HexChar(Head(ns))>> \o MapHex(Tail(ns))
ToHex(w) == MapHex(DropLeadingZeros(Nibbles(w)))                \* 1..16 characters

\* parse a string of 1..16 hex digits (either case) into nibbles, right aligned
RECURSIVE PadLeft(_)
PadLeft(ns) == IF Len(ns) >= 16 THEN ns ELSE PadLeft(<<0>> \o ns)
RECURSIVE MapVal(_)
MapVal(s) == IF s = <<>> THEN <<>> ELSE <<HexVal(Head(s))>> \o MapVal(Tail(s))
AllHex(s) == \A i \in 1..Len(s) : IsHexDigit(s[i])
FromHexNibbles(s) == PadLeft(MapVal(s))

IsSpace(c) == c \in 9..13 \/ c = 32
RECURSIVE SkipSpace(_)
SkipSpace(s) == IF s # <<>> /\ IsSpace(Head(s)) THEN SkipSpace(Tail(s)) ELSE s
\* "starts with a hexadecimal number" in the sense of a C scanf %x conversion: optional white
\* space, optional sign, then at least one hex digit
StartsHexNumber(s) ==
  LET a == SkipSpace(s)
      b == IF a # <<>> /\ Head(a) \in {43, 45} THEN Tail(a) ELSE a
  IN b # <<>> /\ IsHexDigit(Head(b))

=============================================================================
