SPECIFICATION Spec
CONSTANT R = 1
INVARIANT RoundTrip
INVARIANT LatticeAdjacency
INVARIANT FacesOK
INVARIANT VerticesOK
CHECK_DEADLOCK FALSE
