------------------------------- MODULE H3PolyIter -------------------------------
(* The hierarchical polygon fill of polyfill.c as a state machine (C07 / C15): iterStepPolygonCompact with its cell
   odometer nextCell, over an abstract geometry.

   Cells are [b |-> base cell number (1..NB), d |-> digits]; base cell k is a pentagon iff Pent[k].  The polygon is
   abstract: an oracle fixed in the initial state answers the three questions the code asks
       inLeaf[c]     target-resolution cell c passes the containment test of the requested mode
       overlap[c]    the child-covering bounding box of coarse cell c overlaps the polygon's bounding box
       contained[c]  that box lies inside the polygon (then c is emitted as a whole and later expanded to its children)
   subject to the two guarantees the algorithm relies on (what cellToBBox(coverChildren) and the bbox tests must provide):
       Covering   : overlap[c]   whenever some target descendant of c has inLeaf
       Soundness  : contained[c] only if every target descendant of c has inLeaf
   Everything else is arbitrary, so TLC explores every pruning pattern.

   Checked: the iterator terminates, emits each compact cell at most once, in strictly increasing index order, no emitted
   cell is an ancestor of another, and the emitted cells expand to exactly {target cells with inLeaf}.  With Covering
   switched off (Assume = "none") the exactness fails - the model shows that exactness of the fill rests on that guarantee. *)
EXTENDS Naturals, Sequences, FiniteSets
CONSTANTS Pent,       \* sequence of BOOLEAN, one per base cell
          Target,     \* target resolution
          Assume      \* "both" | "none"
NB == Len(Pent)
Null == [b |-> 0, d |-> <<>>]
IsPentC(c) == Pent[c.b] /\ \A i \in 1..Len(c.d) : c.d[i] = 0
ChildDigits(c) == IF IsPentC(c) THEN {0, 2, 3, 4, 5, 6} ELSE 0..6
RECURSIVE Desc(_, _)
Desc(c, r) == IF Len(c.d) = r THEN {c} ELSE UNION {Desc([c EXCEPT !.d = Append(c.d, k)], r) : k \in ChildDigits(c)}
BaseCell(k) == [b |-> k, d |-> <<>>]
Leaves == UNION {Desc(BaseCell(k), Target) : k \in 1..NB}
Coarse == UNION {UNION {Desc(BaseCell(k), r) : k \in 1..NB} : r \in 0..(Target - 1)}
Parent(c) == [c EXCEPT !.d = SubSeq(c.d, 1, Len(c.d) - 1)]
IsAncestorOrSelf(a, c) == a.b = c.b /\ Len(a.d) <= Len(c.d) /\ SubSeq(c.d, 1, Len(a.d)) = a.d

\* nextCell (polyfill.c:290), loop for loop
RECURSIVE NextCell(_)
NextCell(c) ==
  IF Len(c.d) = 0 THEN (IF c.b + 1 <= NB THEN BaseCell(c.b + 1) ELSE Null)
  ELSE LET p == Parent(c)   digit == c.d[Len(c.d)]
       IN IF digit < 6
          THEN [c EXCEPT !.d[Len(c.d)] = digit + (IF IsPentC(p) /\ digit = 0 THEN 2 ELSE 1)]
          ELSE NextCell(p)

VARIABLES inLeaf, overlap, contained, cell, started, pc, out
vars == <<inLeaf, overlap, contained, cell, started, pc, out>>
AnyIn(c) == \E x \in Desc(c, Target) : inLeaf[x]
AllIn(c) == \A x \in Desc(c, Target) : inLeaf[x]
Init == /\ inLeaf \in [Leaves -> BOOLEAN]
        /\ overlap \in [Coarse -> BOOLEAN]
        /\ contained \in [Coarse -> BOOLEAN]
        /\ (Assume = "both" => \A c \in Coarse : (AnyIn(c) => overlap[c]) /\ (contained[c] => AllIn(c)))
        /\ cell = BaseCell(1) /\ started = FALSE /\ pc = "idle" /\ out = <<>>
\* entry of iterStepPolygonCompact
Call == /\ pc = "idle"
        /\ IF cell = Null THEN pc' = "done" /\ UNCHANGED <<cell, started>>
           ELSE /\ pc' = "loop"
                /\ IF started THEN cell' = NextCell(cell) /\ UNCHANGED started ELSE started' = TRUE /\ UNCHANGED cell
        /\ UNCHANGED <<inLeaf, overlap, contained, out>>
\* one iteration of its while loop
Loop == /\ pc = "loop"
        /\ IF cell = Null THEN pc' = "done" /\ UNCHANGED <<cell, out>>
           ELSE IF Len(cell.d) = Target
                THEN IF inLeaf[cell] THEN out' = Append(out, cell) /\ pc' = "idle" /\ UNCHANGED cell
                                     ELSE cell' = NextCell(cell) /\ UNCHANGED <<pc, out>>
                ELSE IF overlap[cell]
                     THEN IF contained[cell] THEN out' = Append(out, cell) /\ pc' = "idle" /\ UNCHANGED cell
                                             ELSE cell' = [cell EXCEPT !.d = Append(cell.d, 0)] /\ UNCHANGED <<pc, out>>   \* cellToCenterChild
                     ELSE cell' = NextCell(cell) /\ UNCHANGED <<pc, out>>
        /\ UNCHANGED <<inLeaf, overlap, contained, started>>
Done == pc = "done" /\ UNCHANGED vars
Next == Call \/ Loop \/ Done
Spec == Init /\ [][Next]_vars /\ WF_vars(Call \/ Loop)

\* index order of cells of mixed resolution as the code emits them: compare base cell, then digits, a prefix first
RECURSIVE SeqLess(_, _)
SeqLess(s, t) == IF s = <<>> THEN t # <<>> ELSE IF t = <<>> THEN FALSE
                 ELSE IF Head(s) # Head(t) THEN Head(s) < Head(t) ELSE SeqLess(Tail(s), Tail(t))
CellLess(a, c) == a.b < c.b \/ (a.b = c.b /\ SeqLess(a.d, c.d))
Expand == UNION {Desc(out[i], Target) : i \in 1..Len(out)}
Ordered == \A i \in 1..(Len(out) - 1) : CellLess(out[i], out[i + 1]) /\ ~IsAncestorOrSelf(out[i], out[i + 1])
Exact == pc = "done" => Expand = {x \in Leaves : inLeaf[x]}
Terminates == <>(pc = "done")
=============================================================================
