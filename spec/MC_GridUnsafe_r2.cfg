SPECIFICATION Spec
CONSTANTS R = 2  K = 3
INVARIANT UnsafeClaims
CHECK_DEADLOCK FALSE
