------------------------------- MODULE Trace_Geo -------------------------------
(* C08 (boundaries tile the sphere) and the geometric clauses of C10 (directedEdgeToBoundary,
   edgeLengthRads, Km, M) and C11 (vertexToLatLng), on integer observations: coordinates are projected by the
   driver onto vertex ids (points within 1e-12 rad share an id; ids are local to one event) and onto
   integer deviations.  The structure is judged here against the neighbour graph N of H3Grid. *)
EXTENDS H3FaceIJK, BigNat, TraceBase, FiniteSets
VARIABLES l, sum, cnt
vars == <<l, sum, cnt>>

ATOL == 100000000      \* cellArea* vs independently computed spherical area: relative 1e-4  (units 1e-12; worst measured 3.4e-6)
LTOL == 100000         \* edgeLength* vs summed great-circle arcs: relative 1e-7               (units 1e-12; worst measured 2.8e-9)
KTOL == 100            \* Km / M scalings: relative 1e-14                                      (units 1e-16; worst measured 2.2e-16)
FourPiE18 == <<14315, 12305, 9126, 8211, 157>>            \* round(4*pi*10^18) in base-16807 limbs
SumTol == BOfSmall(1000000)                               \* 1e-12 steradian (worst measured 6.4e-15)

Rev(s) == [i \in 1..Len(s) |-> s[Len(s) + 1 - i]]
SeqRange(s) == {s[i] : i \in 1..Len(s)}
Cyc(i, n) == ((i - 1) % n) + 1
\* the stretch of a (cyclic sequence ids) shared with the id set B: start position s (in B, predecessor not in B), length k
StretchOK(ids, B, k, s) ==
  LET n == Len(ids) IN
  /\ {i \in 1..n : ids[i] \in B} = {Cyc(s + j, n) : j \in 0..(k - 1)}
  /\ ids[Cyc(s - 1 + n, n)] \notin B
Stretch(ids, k, s) == [j \in 1..k |-> ids[Cyc(s + j - 1, Len(ids))]]
\* seq t occurs in the cyclic sequence ids as a contiguous stretch
OccursCyclic(t, ids) == \E s \in 1..Len(ids) : \A j \in 1..Len(t) : ids[Cyc(s + j - 1, Len(ids))] = t[j]

BoundaryNbhdOK(e) ==
  LET c == CellOf(e.h)   ids == e.ids   n == Len(ids)
      odd == c.r % 2 = 1
      nbW == {e.nb[i].b : i \in 1..Len(e.nb)}
      shareCount(id) == Cardinality({i \in 1..Len(e.nb) : id \in SeqRange(e.nb[i].ids)})
      topo == SelectSeq(ids, LAMBDA id : shareCount(id) = 2)
      nv == IF IsPentC(c) THEN 5 ELSE 6
  IN
  /\ ValidCell(e.h) /\ e.r = 0 /\ e.rc = 0 /\ e.n = n
  /\ IF IsPentC(c) THEN n = (IF odd THEN 10 ELSE 5)                 \* 5 or 10 for a pentagon
     ELSE IF odd THEN n \in 6..8 ELSE n = 6                          \* distortion vertices only at odd resolutions
  /\ n = BoundaryPoints(c)                                          \* exactly the count the face lattice predicts: an extra point on
                                                                    \* every edge whose corners lie on different icosahedron faces
  /\ Cardinality(SeqRange(ids)) = n                                  \* no repeated point
  /\ e.ccw = 1                                                       \* counter-clockwise, centre strictly inside
  /\ nbW = WordsOf(N(c))
  /\ \A i \in 1..Len(e.nb) :
       LET q == e.nb[i]   B == SeqRange(q.ids) IN
       /\ Cardinality(SeqRange(q.ids)) = Len(q.ids)
       /\ \E k \in {2, 3} : \E s \in 1..n :
            /\ StretchOK(ids, B, k, s)
            /\ OccursCyclic(Rev(Stretch(ids, k, s)), q.ids)         \* the neighbour runs through it in reverse
            /\ Cardinality(B \cap SeqRange(ids)) = k
            \* C10: the edge boundary is that stretch (origin's order), reversed for the opposite edge
            /\ q.q1 = 0 /\ q.eb = Stretch(ids, k, s)
            /\ q.q2 = 0 /\ q.ebr = Rev(Stretch(ids, k, s))
       /\ q.rl = 0 /\ q.ldev <= LTOL /\ q.lkdev <= KTOL              \* great-circle length and its unit scalings
  /\ \A i \in 1..n : shareCount(ids[i]) \in {1, 2}                   \* corner: three cells; distortion vertex: two
  /\ Len(topo) = nv
  /\ (odd /\ ~IsPentC(c) => [i \in 1..n |-> shareCount(ids[i]) = 2] = HexBoundaryPattern(c))   \* the extra points sit exactly where the
                                                                                                  \* lattice model puts them
  \* C11: vertexToLatLng(slot i) is the i-th topological corner of the boundary
  /\ \A i \in 1..6 : e.tv[i] = (IF i <= nv THEN topo[i] ELSE 0)
  /\ e.ra = 0 /\ e.adev <= ATOL /\ e.kmdev <= KTOL                   \* area = enclosed spherical area; Km2 / M2 scalings

BoundaryLiteOK(e) ==
  LET c == CellOf(e.h)   n == Len(e.ids)   odd == c.r % 2 = 1 IN
  /\ ValidCell(e.h) /\ e.r = 0 /\ e.rc = 0 /\ e.n = n
  /\ IF IsPentC(c) THEN n = (IF odd THEN 10 ELSE 5) ELSE IF odd THEN n \in 6..8 ELSE n = 6
  /\ n = BoundaryPoints(c)
  /\ Cardinality(SeqRange(e.ids)) = n
  /\ e.ccw = 1

Ev == Tr[l]
Init == l = 1 /\ sum = BZero /\ cnt = 0
\* |a - b| <= t on BigNats
BNear(a, b, t) == IF BLess(a, b) THEN BLeq(BSub(b, a), t) ELSE BLeq(BSub(a, b), t)
Step ==
  \/ /\ Ev.e = "boundaryNbhd" /\ (IF BoundaryNbhdOK(Ev) THEN TRUE ELSE FALSE) /\ UNCHANGED <<sum, cnt>>
  \/ /\ Ev.e = "boundaryLite" /\ (IF BoundaryLiteOK(Ev) THEN TRUE ELSE FALSE) /\ UNCHANGED <<sum, cnt>>
  \/ /\ Ev.e = "boundaryTwice" /\ ValidCell(Ev.h) /\ Ev.same = 1 /\ UNCHANGED <<sum, cnt>>     \* a function of its argument: the same
                                                                                               \* whatever was asked before
  \/ /\ Ev.e = "areaStart" /\ sum' = BZero /\ cnt' = 0
  \/ /\ Ev.e = "area" /\ ValidCell(Ev.h) /\ Ev.r = 0 /\ Ev.a.s = 0
     /\ sum' = BAdd(sum, Ev.a.l) /\ cnt' = cnt + 1
  \/ /\ Ev.e = "areaTotal"                              \* every cell of the resolution was added: the areas sum to 4*pi
     /\ BOfSmall(cnt) = Ev.n.l
     /\ cnt = 2 + 120 * (7 ^ Ev.res)
     /\ BNear(sum, FourPiE18, SumTol)
     /\ UNCHANGED <<sum, cnt>>
Next == l <= Len(Tr) /\ Step /\ l' = l + 1
Spec == Init /\ [][Next]_vars
=============================================================================
