-------------------------------- MODULE MC_Grid --------------------------------
(* The grid of one resolution as a state space: state = one cell, step = move to a neighbour.
   Invariants: the cell is valid, has 6 (pentagon: 5) pairwise distinct neighbours, none equal to
   itself, and every neighbour leads back.  The number of distinct states TLC finds must be exactly
   2 + 120 * 7^R (connected, closed, nothing invalid reachable) -- checked by tools against the
   BigNat closed form. *)
EXTENDS H3Grid, FiniteSets, TLC
CONSTANT R
VARIABLE c
Init == c = [r |-> R, b |-> 0, d |-> SubSeq(<<0,0,0,0,0,0,0,0,0,0,0,0,0,0,0>>, 1, R)]
Next == \E dd \in Dirs : NbrOk(c, dd) /\ c' = NbrCell(c, dd)
Spec == Init /\ [][Next]_c
GridInv ==
  /\ ValidC(c) /\ c.r = R
  /\ LET ok == {dd \in Dirs : NbrOk(c, dd)}
         ns == {NbrCell(c, dd) : dd \in ok}
     IN /\ Cardinality(ns) = (IF IsPentC(c) THEN 5 ELSE 6)         \* distinct neighbours
        /\ (~IsPentC(c) => Cardinality(ok) = 6)
        \* (a resolution-0 pentagon answers the deleted K direction with its IK neighbour again;
        \*  at finer resolutions the K direction is refused)
        /\ c \notin ns
        /\ \A n \in ns : ValidC(n) /\ n.r = R /\ c \in N(n)         \* symmetric
        /\ (IsPentC(c) /\ R > 0 => ok = 2..6 /\ Nbr(c, 1, 0)[1] = "pent")   \* only the K direction is deleted
        /\ (IsPentC(c) /\ R = 0 => NbrCell(c, 1) = NbrCell(c, 5))
        /\ \A dd \in Dirs \ ok : Nbr(c, dd, 0)[1] = "pent"          \* never "fail" on valid cells
\* model -> code: the cells of the model's graph are the origins replayed into the library
EmitCell == PrintT(<<"CELL", WordOf(c)>>)
=============================================================================
