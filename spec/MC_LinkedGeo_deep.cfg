CONSTANTS Origin = 14  MaxSize = 6
SPECIFICATION Spec
INVARIANT OutlineSemantics
CHECK_DEADLOCK FALSE
INVARIANT CornerCount
