------------------------------- MODULE H3Polygon -------------------------------
(* Set-level semantics of polygon filling (C07, C15).

   The geometry (is this point inside that polygon?) is not expressible in TLA+; it reaches the specification as
   three-valued observations per candidate cell, computed by an independent planar point-in-polygon / segment
   geometry in the harness (DESIGN 4.3 / 6):   1 = clearly yes, 0 = clearly no, 2 = within the ambiguity band.
       o[1] cin   the cell centre lies inside the polygon (outer loop minus holes, lat/lng plane)
       o[2] vin   all boundary vertices lie inside the polygon
       o[3] wi    the cell lies wholly in the polygon's interior
       o[4] sh    the cell and the polygon share a point
   What the fills must then satisfy is pure set algebra over cells, stated here. *)
EXTENDS H3Grid, BigNat

CandWords(cand) == {cand[i].h : i \in 1..Len(cand)}
Obs(cand, w, k) == LET i == CHOOSE j \in 1..Len(cand) : cand[j].h = w IN cand[i].o[k]

\* CENTER containment: exactly the cells whose centre is inside (ambiguous centres are free)
CenterOK(S, cand) ==
  \A i \in 1..Len(cand) : LET c == cand[i] IN
     /\ (c.o[1] = 1 => c.h \in S)
     /\ (c.o[1] = 0 => c.h \notin S)

\* FULL: only if centre and all vertices inside; always if wholly interior
FullOK(S, cand) ==
  \A i \in 1..Len(cand) : LET c == cand[i] IN
     /\ (c.h \in S => c.o[1] # 0 /\ c.o[2] # 0)
     /\ (c.o[3] = 1 => c.h \in S)

\* OVERLAPPING: always if they share a point, never if disjoint
OverlappingOK(S, cand) ==
  \A i \in 1..Len(cand) : LET c == cand[i] IN
     /\ (c.o[4] = 1 => c.h \in S)
     /\ (c.o[4] = 0 => c.h \notin S)

\* what every fill result must be: duplicate-free valid cells of the requested resolution within the announced bound
\* (f.max is the limb form of the size function's result; the function itself must have succeeded)
Basics(f, res) ==
  /\ f.rmax = 0 /\ f.rc = 0 /\ f.g = 1
  /\ NoDup(f.out)
  /\ \A i \in 1..Len(f.out) : ValidCell(f.out[i]) /\ Res(f.out[i]) = res
  /\ f.max.s = 0 /\ BLeq(BOfSmall(Len(f.out)), f.max.l)

\* The candidate set is the harness's; the specification checks that it cannot have missed a cell with its centre
\* inside: it contains every output, and it is closed under N at every cell whose centre is (possibly) inside, so
\* each connected piece of the inside set that the raster touched is contained in it entirely.
Closed(cand) ==
  LET W == CandWords(cand) IN
  \A i \in 1..Len(cand) : cand[i].o[1] = 1 => \A n \in N(CellOf(cand[i].h)) : WordOf(n) \in W
=============================================================================
