SPECIFICATION Spec
CONSTANT Variant = "swallow"
INVARIANT Contract
INVARIANT NoStuckCall
CHECK_DEADLOCK FALSE
