CONSTANT R = 9
CONSTANT BUG = "min"
SPECIFICATION Spec
INVARIANT Contiguous
CHECK_DEADLOCK FALSE
