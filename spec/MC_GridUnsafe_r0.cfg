SPECIFICATION Spec
CONSTANTS R = 0  K = 4
INVARIANT UnsafeClaims
CHECK_DEADLOCK FALSE
