SPECIFICATION FmtSpec
INVARIANT LengthLaw
INVARIANT NeverBlocked
CHECK_DEADLOCK FALSE
