------------------------------ MODULE H3Compact ------------------------------
(* Reference semantics of compaction (C06), on sets of index words.

   For a set S of distinct valid cells of one resolution r:
     Compact(S) is computed bottom-up: a parent replaces its children exactly when ALL of its
     (7, or 6 for a pentagon) children are present; repeat on the parents so produced.
   Independently, a result R is *canonical for S* when
     (1) R consists of valid cells of resolution <= r,
     (2) no element of R is an ancestor of another,
     (3) R contains no complete set of siblings,
     (4) the cells of resolution r below R are exactly S.
   TLC checks (MC_Compact) that Compact(S) is canonical for S and is the only canonical set, for all
   subsets S of small universes; the trace specification checks every recorded compactCells
   result against both. *)
EXTENDS H3Hierarchy, FiniteSets

ParentW(w) == WordOf(ParentC(CellOf(w), Res(w) - 1))                   \* Res(w) >= 1
AncestorW(w, pr) == WordOf(ParentC(CellOf(w), pr))
NumKids(p) == IF IsPentC(CellOf(p)) THEN 6 ELSE 7
\* direct children of p, as words
KidsW(p) == LET c == CellOf(p) IN
            {WordOf([r |-> c.r + 1, b |-> c.b, d |-> Append(c.d, k)]) : k \in (IF IsPentC(c) THEN {0, 2, 3, 4, 5, 6} ELSE 0..6)}

\* one round on a set T of cells of one resolution >= 1: <<kept, promoted parents>>
Round(T) ==
  LET P == {ParentW(x) : x \in T}
      Full == {p \in P : KidsW(p) \subseteq T}
  IN <<{x \in T : ParentW(x) \notin Full}, Full>>
RECURSIVE CompactFrom(_, _)
CompactFrom(T, r) ==                   \* T: cells of resolution r
  IF T = {} THEN {}
  ELSE IF r = 0 THEN T
  ELSE LET rd == Round(T) IN rd[1] \cup CompactFrom(rd[2], r - 1)
Compact(S, r) == CompactFrom(S, r)

\* ---- canonical-ness, stated without reference to the procedure above -----------------------
IsAncestorW(a, x) == Res(a) < Res(x) /\ AncestorW(x, Res(a)) = a
\* no element has a strict ancestor in R (linear in |R|: each element has at most 15 ancestors)
Antichain(R) == \A x \in R : \A pr \in 0..(Res(x) - 1) : AncestorW(x, pr) \notin R
NoFullSiblings(R) == \A x \in R : Res(x) >= 1 => ~(KidsW(ParentW(x)) \subseteq R)
\* x (resolution r) is covered by R: some ancestor-or-self of x is in R
Covered(x, R) == \E pr \in 0..Res(x) : AncestorW(x, pr) \in R
\* number of resolution-r cells below R (BigNat)
RECURSIVE SumCounts(_, _)
SumCounts(Rseq, r) == IF Rseq = <<>> THEN BZero
                      ELSE BAdd(ChildCount(CellOf(Head(Rseq)), r - Res(Head(Rseq))), SumCounts(Tail(Rseq), r))
\* (4) without building the expansion: every element of S is covered, R only covers S-many cells, and R is an antichain
ExpandsTo(Rseq, R, S, r, nS) ==
  /\ \A x \in S : Covered(x, R)
  /\ SumCounts(Rseq, r) = nS
  /\ \A x \in R : Res(x) <= r
Canonical(Rseq, S, r) ==
  LET R == {Rseq[i] : i \in 1..Len(Rseq)} IN
  /\ Cardinality(R) = Len(Rseq)                         \* no duplicates in the output
  /\ \A x \in R : ValidCell(x)
  /\ Antichain(R)
  /\ NoFullSiblings(R)
  /\ ExpandsTo(Rseq, R, S, r, BOfSmall(Cardinality(S)))

\* expansion as a set (small cases only)
Expand(R, r) == UNION {{WordOf(y) : y \in ChildrenC(CellOf(x), r)} : x \in R}
=============================================================================
