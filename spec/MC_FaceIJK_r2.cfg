SPECIFICATION Spec
CONSTANT R = 2
INVARIANT RoundTrip
INVARIANT LatticeAdjacency
INVARIANT FacesOK
INVARIANT VerticesOK
CHECK_DEADLOCK FALSE
