CONSTANTS D = 60  K = 3
SPECIFICATION Spec
INVARIANT Correct
CHECK_DEADLOCK FALSE
