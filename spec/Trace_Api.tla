------------------------------- MODULE Trace_Api -------------------------------
(* C12: every recorded API call returned normally with a documented code; an Abort (assertion /
   NEVER / ALWAYS fired in the -UNDEBUG build) or Crash (sanitizer report, signal) event is not a
   step of this specification. *)
EXTENDS H3Api, TraceBase
VARIABLE l
EvOK(e) == CASE e.e = "api" -> CallOK(e) [] OTHER -> FALSE
Init == l = 1
Next == l <= Len(Tr) /\ IF EvOK(Tr[l]) THEN l' = l + 1 ELSE FALSE
Spec == Init /\ [][Next]_l
=============================================================================
