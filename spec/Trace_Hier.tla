------------------------------ MODULE Trace_Hier ------------------------------
(* Trace specification for the hierarchy functions (C04, C13, enumeration part of C03):
   cellToParent, cellToChildrenSize, cellToCenterChild, cellToChildren (complete and sampled),
   cellToChildPos, childPosToCell, getNumCells, getPentagons, getRes0Cells.  Each recorded
   call must be explained by the reference semantics of H3Hierarchy. *)
EXTENDS H3Hierarchy, TraceBase

VARIABLE l

E_SUCCESS == 0   E_DOMAIN == 2   E_RES_DOMAIN == 4   E_RES_MISMATCH == 12
ResOK(r) == r \in 0..15
Big(x) == x.l                       \* trace encoding of an int64: [s |-> sign, l |-> limbs base 16807]
NonNeg(x) == x.s = 0
ExtOf(c, x) == SubSeq(x.d, c.r + 1, x.r)
Untouched(w) == w = <<349525, 10922, 21845, 10922>>     \* 0xAAAAAAAAAAAAAAAA sentinel

ParentOK(e) ==
  LET c == CellOf(e.h) IN
  IF ~ResOK(e.pr) THEN e.r = E_RES_DOMAIN /\ Untouched(e.o)
  ELSE IF e.pr > c.r THEN e.r = E_RES_MISMATCH /\ Untouched(e.o)
  ELSE e.r = E_SUCCESS /\ e.o = WordOf(ParentC(c, e.pr))

SizeOK(e) ==
  LET c == CellOf(e.h) IN
  IF ~ResOK(e.cr) \/ e.cr < c.r THEN e.r = E_RES_DOMAIN
  ELSE e.r = E_SUCCESS /\ NonNeg(e.n) /\ Big(e.n) = ChildCount(c, e.cr - c.r)

CenterOK(e) ==
  LET c == CellOf(e.h) IN
  IF ~ResOK(e.cr) \/ e.cr < c.r THEN e.r = E_RES_DOMAIN /\ Untouched(e.o)
  ELSE /\ e.r = E_SUCCESS /\ e.o = WordOf(CenterChildC(c, e.cr))
       /\ (Has(e, "ang") => e.ang <= e.tol)         \* centre coincidence (numeric observation, 1e-15 rad)

ChildrenOK(e) ==    \* complete output
  LET c == CellOf(e.h)   n == e.cr - c.r   o == e.o IN
  /\ e.r = E_SUCCESS /\ e.guard = 1
  /\ BOfSmall(Len(o)) = ChildCount(c, n)
  /\ \A i \in 1..Len(o) :
       /\ ValidCell(o[i]) /\ Res(o[i]) = e.cr
       /\ ParentC(CellOf(o[i]), c.r) = c
       /\ (i > 1 => WordLess(o[i - 1], o[i]))
       /\ RankOfChild(c, CellOf(o[i])) = BOfSmall(i - 1)
  /\ o[1] = WordOf(CenterChildC(c, e.cr))
  /\ (Has(e, "m") => \E i \in 1..Len(o) : o[i] = e.m)      \* a given descendant is among them

ChildrenSampledOK(e) ==   \* large outputs: count + sampled (position, word) pairs
  LET c == CellOf(e.h)   n == e.cr - c.r IN
  /\ e.r = E_SUCCESS /\ e.guard = 1
  /\ NonNeg(e.n) /\ Big(e.n) = ChildCount(c, n)                     \* non-null entries written
  /\ \A i \in 1..Len(e.s) :
       LET pos == Big(e.s[i][1])   w == e.s[i][2] IN
       /\ ValidCell(w) /\ Res(w) = e.cr /\ ParentC(CellOf(w), c.r) = c
       /\ ExtOf(c, CellOf(w)) = Unrank(c, n, pos)
       /\ RankOfChild(c, CellOf(w)) = pos

ChildPosOK(e) ==
  LET x == CellOf(e.h) IN
  IF ~ResOK(e.pr) THEN e.r = E_RES_DOMAIN
  ELSE IF e.pr > x.r THEN e.r = E_RES_MISMATCH
  ELSE e.r = E_SUCCESS /\ NonNeg(e.p) /\ Big(e.p) = RankOfChild(ParentC(x, e.pr), x)

PosToCellOK(e) ==
  LET c == CellOf(e.h) IN
  IF ~ResOK(e.cr) THEN e.r = E_RES_DOMAIN /\ Untouched(e.o)
  ELSE IF e.cr < c.r THEN e.r = E_RES_MISMATCH /\ Untouched(e.o)
  ELSE IF ~NonNeg(e.p) \/ ~BLess(Big(e.p), ChildCount(c, e.cr - c.r)) THEN e.r = E_DOMAIN /\ Untouched(e.o)
  ELSE /\ e.r = E_SUCCESS
       /\ e.o = WordOf([r |-> e.cr, b |-> c.b, d |-> c.d \o Unrank(c, e.cr - c.r, Big(e.p))])

NumCellsOK(e) ==
  IF ~ResOK(e.res) THEN e.r = E_RES_DOMAIN
  ELSE e.r = E_SUCCESS /\ NonNeg(e.n) /\ Big(e.n) = NumCells(e.res) /\ Big(e.n) = NumCellsClosed(e.res)

PentagonsOK(e) ==
  IF ~ResOK(e.res) THEN e.r = E_RES_DOMAIN
  ELSE /\ e.r = E_SUCCESS /\ e.cnt = 12 /\ Len(e.o) = 12
       /\ {CellOf(e.o[i]) : i \in 1..12} = {[r |-> e.res, b |-> b, d |-> Zeros(e.res)] : b \in PentagonBaseCells}
       /\ \A i \in 1..12 : ValidCell(e.o[i]) /\ e.isPent[i] = 1

Res0OK(e) ==
  /\ e.r = E_SUCCESS /\ e.cnt = 122 /\ Len(e.o) = 122
  /\ {e.o[i] : i \in 1..122} = {WordOf([r |-> 0, b |-> b, d |-> <<>>]) : b \in 0..121}

\* C03: cellToLatLng(h) succeeds and latLngToCell of that centre at h's resolution returns h
RoundTripOK(e) == e.rc = E_SUCCESS /\ e.rl = E_SUCCESS /\ e.o = e.h
\* complete enumeration of one base cell at one resolution (the driver lists cellToChildren of the res-0 cell):
\* n distinct valid cells of that resolution and base cell, n = closed-form count
EnumBaseOK(e) ==
  LET bcw == WordOf([r |-> 0, b |-> e.bc, d |-> <<>>]) IN
  /\ e.h0 = bcw /\ e.n.s = 0
  /\ e.n.l = ChildCount(CellOf(bcw), e.res)
  /\ e.distinct = 1 /\ e.allvalid = 1

\* isPentagon on a valid cell = IsPentC
IsPentOK(e) == (e.o = 1) = IsPentC(CellOf(e.h))

EvOK(e) ==
  /\ (Has(e, "h") => ValidCell(e.h))              \* these events are only recorded for valid input cells
  /\ CASE e.e = "cellToParent"        -> ParentOK(e)
       [] e.e = "cellToChildrenSize"  -> SizeOK(e)
       [] e.e = "cellToCenterChild"   -> CenterOK(e)
       [] e.e = "cellToChildren"      -> ChildrenOK(e)
       [] e.e = "cellToChildrenS"     -> ChildrenSampledOK(e)
       [] e.e = "cellToChildPos"      -> ChildPosOK(e)
       [] e.e = "childPosToCell"      -> PosToCellOK(e)
       [] e.e = "getNumCells"         -> NumCellsOK(e)
       [] e.e = "getPentagons"        -> PentagonsOK(e)
       [] e.e = "getRes0Cells"        -> Res0OK(e)
       [] e.e = "isPentagon"          -> IsPentOK(e)
       [] e.e = "roundtrip"           -> RoundTripOK(e)
       [] e.e = "enumBase"            -> EnumBaseOK(e)
       [] OTHER -> FALSE
Init == l = 1
\* (the IF makes TLC evaluate EvOK as a plain expression instead of expanding it as an action)
Next == l <= Len(Tr) /\ IF EvOK(Tr[l]) THEN l' = l + 1 ELSE FALSE
Spec == Init /\ [][Next]_l
=============================================================================
