---------------------------- MODULE MC_VertexGraph ----------------------------
EXTENDS H3VertexGraph
\* two hexagons sharing the edge 2-3, and a third closing the corner at 3 (vertex ids)
TwoCells == << <<1, 2, 3, 4, 5, 6>>, <<3, 2, 7, 8, 9, 10>> >>
=============================================================================
