SPECIFICATION Spec
CONSTANT Roots <- MCRoots
CONSTANT PartMin = 0
INVARIANT CompactIsCanonical
CHECK_DEADLOCK FALSE
