SPECIFICATION Spec
CONSTANTS R = 0  K = 4
INVARIANT LocalIJClaims
CHECK_DEADLOCK FALSE
