------------------------------- MODULE H3LinkedGeo -------------------------------
(* The outline of a set of cells (C16), on integers.

   Geometry reaches the specification as vertex ids: the driver clusters every coordinate it sees (cell boundary
   vertices of the input cells and the vertices of the returned loops) so that points within 1e-12 rad get the same
   id (C08: shared boundary vertices of adjacent cells coincide within that distance).  With ids the outline is a
   combinatorial object:

     cb[i]           the boundary of input cell i as a cyclic sequence of ids, counter-clockwise
     DirEdges        all directed edges <<u, v>> of all cells
     Boundary        the directed edges whose reverse is not an edge of another input cell: exactly the edges between a
                     cell of the set and the outside.  Three cells meet at every vertex, so every vertex of Boundary has
                     exactly one incoming and one outgoing boundary edge and Boundary is a disjoint union of simple cycles.
     Components      connected components of the input set in the neighbour graph N of H3Grid

   cellsToLinkedMultiPolygon must return exactly the cycles of Boundary (each once, as a closed loop of >= 3 vertices,
   all of them boundary vertices of input cells), grouped into one polygon per component: the cells owning the edges of
   all loops of a polygon lie in one component, different polygons in different components; the first loop of a polygon
   is counter-clockwise, the others clockwise (orientation is a sign observation w = 1 / -1), and the enclosed area equals
   the area of the component's cells (observation adev, relative deviation in 1e-12). *)
EXTENDS H3Grid

Cyc(i, n) == ((i - 1) % n) + 1
EdgesOfSeq(s) == {<<s[j], s[Cyc(j + 1, Len(s))]>> : j \in 1..Len(s)}
Rev2(e) == <<e[2], e[1]>>

DirEdges(cb) == UNION {EdgesOfSeq(cb[i]) : i \in 1..Len(cb)}
Boundary(cb) == LET D == DirEdges(cb) IN {e \in D : Rev2(e) \notin D}
\* the input cell that owns a directed edge
Owner(cb, e) == CHOOSE i \in 1..Len(cb) : e \in EdgesOfSeq(cb[i])

\* connected components of a set of cells S (abstract cells) under N
RECURSIVE Grow(_, _, _)
Grow(S, seen, frontier) ==
  IF frontier = {} THEN seen
  ELSE LET nxt == ((UNION {N(c) : c \in frontier}) \cap S) \ seen IN Grow(S, seen \cup nxt, nxt)
CompOf(S, c) == Grow(S, {c}, {c})
RECURSIVE CompsFrom(_, _)
CompsFrom(S, rest) == IF rest = {} THEN {} ELSE LET c == CHOOSE x \in rest : TRUE   K == CompOf(S, c) IN {K} \cup CompsFrom(S, rest \ K)
Components(S) == CompsFrom(S, S)

\* well-formed input: distinct valid cells of one resolution, each directed edge owned by one cell
PreOK(cells, cb) ==
  /\ Len(cells) >= 1 /\ NoDup(cells) /\ Len(cb) = Len(cells)
  /\ \A i \in 1..Len(cells) : ValidCell(cells[i]) /\ Res(cells[i]) = Res(cells[1]) /\ NoDup(cb[i]) /\ Len(cb[i]) >= 5
  /\ \A i, j \in 1..Len(cells) : i < j => EdgesOfSeq(cb[i]) \cap EdgesOfSeq(cb[j]) = {}

\* polys: sequence of polygons, each a sequence of loops [ids |-> Seq(id), w |-> 1 | -1]
OutlineOK(cells, cb, polys) ==
  LET B == Boundary(cb)
      S == {CellOf(cells[i]) : i \in 1..Len(cells)}
      Comps == Components(S)
      LoopIdx == {pk \in (1..Len(polys)) \X (1..Cardinality(B)) : pk[2] <= Len(polys[pk[1]])}
      LE(pk) == EdgesOfSeq(polys[pk[1]][pk[2]].ids)
      BVerts == {e[1] : e \in B}
      CompOfPoly(p) == {CompOf(S, CellOf(cells[Owner(cb, e)])) : e \in UNION {LE(<<p, k>>) : k \in 1..Len(polys[p])}}
  IN
  /\ \A pk \in LoopIdx : LET ids == polys[pk[1]][pk[2]].ids IN
        /\ Len(ids) >= 3 /\ NoDup(ids)                                   \* closed simple loop, at least three vertices
        /\ \A j \in 1..Len(ids) : ids[j] \in BVerts                      \* every vertex is a boundary vertex of an input cell
        /\ LE(pk) \subseteq B                                            \* every loop edge separates a cell of the set from the outside
  /\ \A a, b \in LoopIdx : a # b => LE(a) \cap LE(b) = {}                \* no edge twice
  /\ UNION {LE(pk) : pk \in LoopIdx} = B                                 \* the loops cover the outline exactly
  /\ Len(polys) = Cardinality(Comps)                                     \* one polygon per edge-connected component
  /\ \A p \in 1..Len(polys) : Len(polys[p]) >= 1 /\ Cardinality(CompOfPoly(p)) = 1
  /\ \A p, q \in 1..Len(polys) : p < q => CompOfPoly(p) # CompOfPoly(q)
  /\ \A p \in 1..Len(polys) : /\ polys[p][1].w = 1                       \* outer loop counter-clockwise
                              /\ \A k \in 2..Len(polys[p]) : polys[p][k].w = -1      \* holes clockwise

\* Areas are observations in units of 1e-4 of the set's mean cell area, each rounded to the nearest integer (signed for
\* loops: positive counter-clockwise).  Enclosed area of a polygon (outer loop minus holes = sum of the signed loop areas)
\* equals the area of the cells of its component, up to the roundings.
RECURSIVE SumOver(_, _)
SumOver(f, I) == IF I = {} THEN 0 ELSE LET i == CHOOSE x \in I : TRUE IN f[i] + SumOver(f, I \ {i})
Abs(x) == IF x < 0 THEN -x ELSE x
AreaOK(cells, cb, ca, polys) ==
  LET S == {CellOf(cells[i]) : i \in 1..Len(cells)} IN
  \A p \in 1..Len(polys) :
    LET e0 == <<polys[p][1].ids[1], polys[p][1].ids[2]>>
        K == CompOf(S, CellOf(cells[Owner(cb, e0)]))
        I == {i \in 1..Len(cells) : CellOf(cells[i]) \in K}
        la == [k \in 1..Len(polys[p]) |-> polys[p][k].a]
    IN Abs(SumOver(la, 1..Len(polys[p])) - SumOver(ca, I)) <= Len(polys[p]) + Cardinality(I) + 2
=============================================================================
