SPECIFICATION Spec
CONSTANTS R = 1  K = 4
INVARIANT LocalIJClaims
CHECK_DEADLOCK FALSE
