------------------------------- MODULE MC_PolyIter2 -------------------------------
(* The iterator model at target resolution 2 under one pentagon base cell (41 target cells, 7 coarse cells): here nextCell
   carries over two levels and skips the deleted child of the pentagon AND of its centre child.  The oracle is not arbitrary
   (2^41 leaf sets) but built per resolution-1 cell from five patterns: none, all, first child only, last child only, all but the
   first; the bounding-box answers are the loosest or the tightest the two guarantees allow. *)
EXTENDS H3PolyIter
OnlyPent == <<TRUE>>
Res1 == Desc(BaseCell(1), 1)
Kids(c) == Desc(c, 2)
MinKid(c) == CHOOSE k \in Kids(c) : \A o \in Kids(c) : k = o \/ CellLess(k, o)
MaxKid(c) == CHOOSE k \in Kids(c) : \A o \in Kids(c) : k = o \/ CellLess(o, k)
PatSet(c, pat) == CASE pat = 0 -> {} [] pat = 1 -> Kids(c) [] pat = 2 -> {MinKid(c)} [] pat = 3 -> {MaxKid(c)} [] OTHER -> Kids(c) \ {MinKid(c)}
InitP == /\ \E pat \in [Res1 -> 0..4] :
              inLeaf = [x \in Leaves |-> \E c \in Res1 : x \in PatSet(c, pat[c])]
         /\ \E eo \in BOOLEAN : overlap = [c \in Coarse |-> AnyIn(c) \/ eo]          \* the loosest / tightest boxes the guarantees allow
         /\ \E ec \in BOOLEAN : contained = [c \in Coarse |-> AllIn(c) /\ ec]
         /\ cell = BaseCell(1) /\ started = FALSE /\ pc = "idle" /\ out = <<>>
SpecP == InitP /\ [][Next]_vars /\ WF_vars(Call \/ Loop)
=============================================================================
