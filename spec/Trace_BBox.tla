------------------------------- MODULE Trace_BBox -------------------------------
(* Binds the bounding-box model H3BBox to the code: recorded calls of bboxOverlapsBBox (both argument orders),
   bboxContainsBBox and bboxContains on boxes of an integer longitude grid must agree with the reference semantics
   (a box is the set of grid points it covers).  Latitudes are in quarter radians, the point's latitude lies just above
   its grid line (so >= and > coincide).  Edges of the two boxes never coincide (even / odd grid). *)
EXTENDS TraceBase, Integers, FiniteSets
VARIABLE l
vars == <<l>>
Ev == Tr[l]
B == INSTANCE H3BBox WITH H <- 12
Width(x) == IF x.e < x.w THEN x.e + 24 - x.w ELSE x.e - x.w
BoxOK(e) ==
  (Width(e.a) < 12 /\ Width(e.b) < 12 /\ e.a.s <= e.a.n /\ e.b.s <= e.b.n) =>
    /\ (e.ov = 1) = B!OverlapsRef(e.a, e.b)
    /\ e.ovr = e.ov                                                   \* symmetric
    /\ (e.ct = 1) = B!ContainsBBoxRef(e.a, e.b)
    /\ (e.pin = 1) = (e.plat >= e.a.s /\ e.plat < e.a.n /\ e.plng \in B!Lngs(e.a))
Init == l = 1
Next == l <= Len(Tr) /\ (\/ Ev.e = "bbox" /\ (IF BoxOK(Ev) THEN TRUE ELSE FALSE)
                         \/ Ev.e = "bboxAbsent") /\ l' = l + 1
Spec == Init /\ [][Next]_vars
=============================================================================
