------------------------------ MODULE Trace_C01 ------------------------------
(* C01: every observed isValidCell verdict equals the documented predicate, and every cell any
   API call produced satisfies it. *)
EXTENDS H3Index, TraceBase

VARIABLE l
EvOK(e) ==
  CASE e.e = "isValidCell" -> IsWord(e.h) /\ (e.o = 1) = ValidCell(e.h) /\ e.o \in {0, 1}
    [] e.e = "produced"    -> IsWord(e.h) /\ ValidCell(e.h)     \* closure clause; e.f names the API call
    [] OTHER -> FALSE
Init == l = 1
\* (the IF makes TLC evaluate EvOK as a plain expression instead of expanding it as an action)
Next == l <= Len(Tr) /\ IF EvOK(Tr[l]) THEN l' = l + 1 ELSE FALSE
Spec == Init /\ [][Next]_l
=============================================================================
