------------------------------ MODULE Trace_C01 ------------------------------
(* C01: every observed isValidCell verdict equals the documented predicate, and every cell any
   API call produced satisfies it. *)
EXTENDS H3Index, TraceBase

VARIABLE l
EvOK(e) ==
  CASE e.e = "isValidCell" -> IsWord(e.h) /\ (e.o = 1) = ValidCell(e.h) /\ e.o \in {0, 1}
    [] e.e = "produced"    -> IsWord(e.h) /\ ValidCell(e.h)     \* closure clause; e.f names the API call
    [] OTHER -> FALSE
Init == l = 1
Next == l <= Len(Tr) /\ EvOK(Tr[l]) /\ l' = l + 1
Spec == Init /\ [][Next]_l
=============================================================================
