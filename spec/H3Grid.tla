-------------------------------- MODULE H3Grid --------------------------------
(* The neighbour graph of H3 cells.

   Nbr(c, dir, rot) transcribes h3NeighborRotations (src/h3lib/lib/algos.c:352): the digit walk
   with the Class II / III digit tables, the base-cell step with the deleted-K detour, the
   pentagon re-orientation rules (cw-offset faces, polar pentagons), and the rotation
   bookkeeping.  From it the REFERENCE graph is defined: N(c) is the set of cells one step
   away, Disk/Dist/Ring are plain breadth-first search.  Everything the grid-traversal
   properties (C05, C09, C10, C11, C14) say is stated against this graph.

   The transcription is itself checked (MC_Grid): exploring the graph of a whole resolution
   from one seed must reach exactly 2 + 120*7^r cells, each with 6 (pentagon: 5) distinct valid
   neighbours, each step reversible.  *)
EXTENDS H3Index, H3Tables

CCW == <<5, 3, 1, 6, 4, 2>>
CW  == <<3, 6, 2, 5, 1, 4>>
R60ccw(d) == IF d \in 1..6 THEN CCW[d] ELSE d
R60cw(d)  == IF d \in 1..6 THEN CW[d] ELSE d
RECURSIVE RotAllCcw(_)
RotAllCcw(ds) == IF ds = <<>> THEN <<>> ELSE <<R60ccw(Head(ds))>> \o RotAllCcw(Tail(ds))
RECURSIVE RotAllCw(_)
RotAllCw(ds) == IF ds = <<>> THEN <<>> ELSE <<R60cw(Head(ds))>> \o RotAllCw(Tail(ds))
RECURSIVE RotDirCcw(_, _)
RotDirCcw(d, n) == IF n = 0 THEN d ELSE RotDirCcw(R60ccw(d), n - 1)
RECURSIVE RotAllCcwN(_, _)
RotAllCcwN(ds, n) == IF n = 0 THEN ds ELSE RotAllCcwN(RotAllCcw(ds), n - 1)

CwOff(b, f)  == BCD[b + 1][6] = f \/ BCD[b + 1][7] = f          \* _baseCellIsCwOffset
Polar(b)     == b = 4 \/ b = 117                                \* _isBaseCellPolarPentagon
HomeFace(b)  == BCD[b + 1][1]

\* _h3RotatePent60ccw, loop for loop
RECURSIVE RotPentCcwFrom(_, _, _)
RotPentCcwFrom(ds, r, found) ==
  IF r > Len(ds) THEN ds
  ELSE LET ds1 == [ds EXCEPT ![r] = R60ccw(ds[r])]
       IN IF ~found /\ ds1[r] # 0
          THEN RotPentCcwFrom(IF Lead(ds1) = 1 THEN RotAllCcw(ds1) ELSE ds1, r + 1, TRUE)
          ELSE RotPentCcwFrom(ds1, r + 1, found)
RotPentCcw(ds) == RotPentCcwFrom(ds, 1, FALSE)
RECURSIVE RotPentCcwN(_, _)
RotPentCcwN(ds, n) == IF n = 0 THEN ds ELSE RotPentCcwN(RotPentCcw(ds), n - 1)

\* the digit loop: returns <<digits, direction, reached the base-cell level>>
RECURSIVE Walk(_, _, _)
Walk(ds, r, dir) ==
  IF r = 0 THEN <<ds, dir, TRUE>>
  ELSE LET od == ds[r]
           c3 == (r % 2) = 1                     \* isResolutionClassIII(r): the code then uses the _II tables
           nd == IF c3 THEN ND2[od + 1][dir + 1] ELSE ND3[od + 1][dir + 1]
           na == IF c3 THEN NA2[od + 1][dir + 1] ELSE NA3[od + 1][dir + 1]
           ds1 == [ds EXCEPT ![r] = nd]
       IN IF na # 0 THEN Walk(ds1, r - 1, na) ELSE <<ds1, dir, FALSE>>

\* h3NeighborRotations for a valid cell c, direction dir0 in 1..6, incoming rotations rot0 >= 0.
\* Result <<status, cell, rotations>>, status "ok" | "pent" (E_PENTAGON) | "fail" (E_FAILED)
Nbr(c, dir0, rot0) ==
  LET rot == rot0 % 6
      dir == RotDirCcw(dir0, rot)
      oldB == c.b
      oldLead == Lead(c.d)
      w == Walk(c.d, c.r, dir)
      atBase == w[3]
      dirB == w[2]
      rawB == IF atBase THEN BCN[oldB + 1][dirB + 1] ELSE oldB
      delK == atBase /\ rawB = 127
      newB == IF delK THEN BCN[oldB + 1][6] ELSE rawB                 \* IK_AXES_DIGIT = 5
      newRot == IF atBase THEN (IF delK THEN BCR[oldB + 1][6] ELSE BCR[oldB + 1][dirB + 1]) ELSE 0
      ds0 == IF delK THEN RotAllCcw(w[1]) ELSE w[1]
      rotA == IF delK THEN rot + 1 ELSE rot
  IN IF ~IsPentBC(newB)
     THEN <<"ok", [r |-> c.r, b |-> newB, d |-> RotAllCcwN(ds0, newRot)], (rotA + newRot) % 6>>
     ELSE LET inK == Lead(ds0) = 1
              crossed == oldB # newB
          IN IF inK /\ ~crossed /\ oldLead = 0 THEN <<"pent", c, 0>>
             ELSE IF inK /\ ~crossed /\ oldLead \notin {3, 5} THEN <<"fail", c, 0>>
             ELSE
              LET ds1 == IF ~inK THEN ds0
                         ELSE IF crossed THEN (IF CwOff(newB, HomeFace(oldB)) THEN RotAllCw(ds0) ELSE RotAllCcw(ds0))
                         ELSE IF oldLead = 3 THEN RotAllCcw(ds0) ELSE RotAllCw(ds0)
                  rotB == IF inK /\ ~crossed THEN (IF oldLead = 3 THEN rotA + 1 ELSE rotA + 5) ELSE rotA
                  ds2  == RotPentCcwN(ds1, newRot)
                  rotC == IF crossed
                          THEN IF Polar(newB)
                               THEN (IF oldB # 118 /\ oldB # 8 /\ Lead(ds2) # 3 THEN rotB + 1 ELSE rotB)
                               ELSE (IF Lead(ds2) = 5 /\ ~(inK /\ crossed) THEN rotB + 1 ELSE rotB)
                          ELSE rotB
              IN <<"ok", [r |-> c.r, b |-> newB, d |-> ds2], (rotC + newRot) % 6>>

-----------------------------------------------------------------------------
\* ---- the reference graph ------------------------------------------------------------------
Dirs == 1..6
NbrCell(c, d) == Nbr(c, d, 0)[2]
NbrOk(c, d) == Nbr(c, d, 0)[1] = "ok"
N(c) == {NbrCell(c, d) : d \in {e \in Dirs : NbrOk(c, e)}}

\* breadth-first layers: Layers(o, k)[i+1] = cells at distance exactly i
RECURSIVE LayersFrom(_, _, _, _)
LayersFrom(acc, seen, frontier, k) ==
  IF k = 0 THEN acc
  ELSE LET nxt == (UNION {N(c) : c \in frontier}) \ seen
       IN LayersFrom(Append(acc, nxt), seen \cup nxt, nxt, k - 1)
Layers(o, k) == LayersFrom(<<{o}>>, {o}, {o}, k)
Disk(o, k) == UNION {Layers(o, k)[i] : i \in 1..(k + 1)}
Ring(o, k) == Layers(o, k)[k + 1]
\* distance of x from o, given the layers (k+1 if not within k)
DistIn(L, x) == LET S == {i \in 1..Len(L) : x \in L[i]} IN IF S = {} THEN Len(L) ELSE (CHOOSE i \in S : TRUE) - 1
\* distance by bidirectional-free BFS up to a bound; -1 if farther
RECURSIVE DistFrom(_, _, _, _, _)
DistFrom(seen, frontier, target, d, bound) ==
  IF target \in frontier THEN d
  ELSE IF d = bound \/ frontier = {} THEN -1
  ELSE LET nxt == (UNION {N(c) : c \in frontier}) \ seen
       IN DistFrom(seen \cup nxt, nxt, target, d + 1, bound)
Dist(a, b, bound) == DistFrom({a}, {a}, b, 0, bound)

MaxDiskSize(k) == 3 * k * (k + 1) + 1
WordsOf(S) == {WordOf(c) : c \in S}
CellsOf(ws) == {CellOf(w) : w \in ws}
=============================================================================
