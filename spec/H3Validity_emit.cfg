SPECIFICATION SpecE
CONSTANT Kinds = {"cell"}
INVARIANT Emit
INVARIANT Agree
CHECK_DEADLOCK FALSE
