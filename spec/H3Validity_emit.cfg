SPECIFICATION SpecE
INVARIANT Emit
INVARIANT Agree
CHECK_DEADLOCK FALSE
