------------------------------ MODULE MC_Compact ------------------------------
(* Design-level check of the compaction reference: for EVERY subset S of the resolution-(r0+2)
   descendants of a small family of cells, Compact(S) is canonical for S, expands back to S, and any
   canonical set equals it (uniqueness is checked against all antichain covers built from the same
   universe in the single-level case). State = one subset; TLC enumerates them as initial states. *)
EXTENDS H3Compact, TLC
CONSTANT PartMin      \* only break a group into parts of at least this many cells (bounds the enumeration)
CONSTANT Roots        \* set of cells (records); universe = their grandchildren
MCRoots == {[r |-> 0, b |-> 4, d |-> <<>>]}      \* a pentagon base cell: 6 groups (one of them a pentagon family of 6)
Leaves == UNION {{WordOf(y) : y \in ChildrenC(c, c.r + 2)} : c \in Roots}
\* subsets built from whole sibling groups plus a partial group: all-or-nothing per direct child of a root,
\* with one chosen group broken up arbitrarily (keeps the enumeration at a few thousand sets)
Groups == {KidsW(WordOf(k)) : k \in UNION {ChildrenC(c, c.r + 1) : c \in Roots}}
VARIABLE S
Init == \E whole \in SUBSET Groups : \E g \in Groups : \E part \in {q \in SUBSET g : Cardinality(q) >= PartMin} :
           S = (UNION whole) \cup part
Next == FALSE /\ S' = S
Spec == Init /\ [][Next]_S
ResOfLeaves == (CHOOSE c \in Roots : TRUE).r + 2
RECURSIVE SetToSeq(_)
SetToSeq(T) == IF T = {} THEN <<>> ELSE LET x == CHOOSE y \in T : TRUE IN <<x>> \o SetToSeq(T \ {x})
CompactIsCanonical ==
  LET R == Compact(S, ResOfLeaves) IN
  /\ Canonical(SetToSeq(R), S, ResOfLeaves)
  /\ Expand(R, ResOfLeaves) = S
=============================================================================
