CONSTANT NC = 2
SPECIFICATION Spec
INVARIANT NotVacuous
CHECK_DEADLOCK FALSE
