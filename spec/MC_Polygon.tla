------------------------------- MODULE MC_Polygon -------------------------------
(* Consistency of the mode clauses of H3Polygon (C07 / C15) on an abstract universe of NC cells.
   State: one assignment of three-valued observations to the cells (any assignment geometry allows) and one choice of
   the four result sets.  Checked: (1) the reference fills read off the observations satisfy every clause and are
   nested - the clauses are satisfiable whatever the geometry; (2) any fills satisfying the clauses are nested on the
   cells whose observations are unambiguous - so the nesting the property demands adds something only on borderline cells;
   (3) the clauses are not vacuous: some assignment rules out some fill. *)
EXTENDS Naturals, FiniteSets, Sequences
CONSTANT NC
Cells == 1..NC
Tri == {0, 1, 2}
\* what planar geometry allows for <<cin, vin, wi, sh>>
Geo(o) == /\ (o[3] = 1 => o[1] = 1 /\ o[2] = 1 /\ o[4] = 1)        \* wholly interior: centre, vertices inside; shares
          /\ (o[1] = 1 => o[4] # 0) /\ (o[2] = 1 => o[4] # 0)        \* something of the cell inside: not disjoint
          /\ (o[4] = 0 => o[1] = 0 /\ o[2] = 0 /\ o[3] = 0)          \* disjoint: nothing inside
          /\ (o[1] = 0 \/ o[2] = 0 => o[3] # 1)
VARIABLES obs, C, F, O
vars == <<obs, C, F, O>>
CenterOK(S) == \A c \in Cells : (obs[c][1] = 1 => c \in S) /\ (obs[c][1] = 0 => c \notin S)
FullOK(S) == \A c \in Cells : (c \in S => obs[c][1] # 0 /\ obs[c][2] # 0) /\ (obs[c][3] = 1 => c \in S)
OverlappingOK(S) == \A c \in Cells : (obs[c][4] = 1 => c \in S) /\ (obs[c][4] = 0 => c \notin S)
Init == /\ obs \in [Cells -> {o \in Tri \X Tri \X Tri \X Tri : Geo(o)}]
        /\ C \in SUBSET Cells /\ F \in SUBSET Cells /\ O \in SUBSET Cells
Next == UNCHANGED vars
Spec == Init /\ [][Next]_vars
RefC == {c \in Cells : obs[c][1] = 1}
RefF == {c \in Cells : obs[c][3] = 1}
RefO == {c \in Cells : obs[c][4] # 0}
Satisfiable == CenterOK(RefC) /\ FullOK(RefF) /\ OverlappingOK(RefO) /\ RefF \subseteq RefC /\ RefC \subseteq RefO
Clear(c) == \A k \in 1..4 : obs[c][k] # 2
NestedOnClear == (CenterOK(C) /\ FullOK(F) /\ OverlappingOK(O)) =>
                   \A c \in Cells : Clear(c) => (c \in F => c \in C) /\ (c \in C => c \in O)
\* negative control: without the geometric side conditions the nesting is not forced (NotForced must be violated)
NotVacuous == ~(CenterOK(C) /\ FullOK(F) /\ OverlappingOK(O) /\ F # {} /\ C # Cells /\ O # Cells)
=============================================================================
