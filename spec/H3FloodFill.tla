------------------------------- MODULE H3FloodFill -------------------------------
(* The legacy polygon fill (algos.c:893 polygonToCells) as a state machine over an abstract polygon (C07).

   The algorithm traces the polygon's edges with cells (the set Traced), then repeatedly takes every cell of the current
   search set, looks at the cell and its neighbours (gridDisk 1), and adds those that are new and whose centre is inside the
   polygon to the output and to the next search set, until nothing new is found.  The geometry is abstract: Inside is an
   arbitrary set of cells of a patch of the real neighbour graph (H3Grid.N), Traced an arbitrary set of cells.

   Checked on the 2-disk of a pentagon at resolution 1 (16 cells), for every Inside of at most MaxIn cells and every Traced
   of at most MaxTr cells:
     - the fill terminates, never returns a cell outside Inside, never returns a cell twice;
     - it returns exactly the union of the connected components of Inside that contain a cell equal or adjacent to a traced
       cell - so it is exact if and only if every component of Inside is within one step of the trace.
   That precondition is what the edge trace must establish.  It is what failed in the defect fixed in /repo (edges crossing
   the antimeridian were traced the long way round, so thin polygons there had inside cells away from every traced cell):
   the model makes the dependency explicit. *)
EXTENDS H3Grid, FiniteSets
CONSTANTS Origin, MaxIn, MaxTr
VARIABLES Adj, Patch, Inside, Traced, search, out, rounds, done
vars == <<Adj, Patch, Inside, Traced, search, out, rounds, done>>
O == [r |-> 1, b |-> Origin, d |-> <<0>>]
Init == /\ Patch = Disk(O, 2)
        /\ Adj = [c \in Disk(O, 2) |-> N(c) \cap Disk(O, 2)]                \* carried as a variable: evaluated once
        /\ Inside \in {X \in SUBSET Disk(O, 2) : Cardinality(X) <= MaxIn}
        /\ Traced \in {X \in SUBSET Disk(O, 2) : Cardinality(X) <= MaxTr}
        /\ search = Traced /\ out = {} /\ rounds = 0 /\ done = FALSE
\* one pass of the main loop over the whole search set
Round == /\ ~done
         /\ LET cand == search \cup UNION {Adj[s] : s \in search}
                found == (cand \cap Inside) \ out
            IN /\ out' = out \cup found
               /\ search' = found
               /\ done' = (found = {})
         /\ rounds' = rounds + 1
         /\ UNCHANGED <<Adj, Patch, Inside, Traced>>
Next == Round \/ (done /\ UNCHANGED vars)
Spec == Init /\ [][Next]_vars /\ WF_vars(Round)

RECURSIVE GrowIn(_, _, _)
GrowIn(S, seen, frontier) == IF frontier = {} THEN seen
                             ELSE LET nxt == ((UNION {Adj[c] : c \in frontier}) \cap S) \ seen IN GrowIn(S, seen \cup nxt, nxt)
Near == Traced \cup UNION {Adj[t] : t \in Traced}
Reached == UNION {GrowIn(Inside, {c}, {c}) : c \in Near \cap Inside}       \* the components of Inside within one step of the trace
Sound == out \subseteq Inside
Exact == done => out = Reached
Precondition == \A c \in Inside : GrowIn(Inside, {c}, {c}) \cap Near # {}
ExactUnderPrecondition == (done /\ Precondition) => out = Inside
Bounded == rounds <= Cardinality(Patch) + 1
Terminates == <>done
\* negative control: without the precondition the fill is not exact (MissesCells must be violated)
MissesCells == done => out = Inside
=============================================================================
