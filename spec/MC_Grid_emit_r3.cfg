SPECIFICATION Spec
CONSTANT R = 3
INVARIANT GridInv
INVARIANT EmitCell
CHECK_DEADLOCK FALSE
