SPECIFICATION Spec
CONSTANT R = 5
INVARIANT GridInv
CHECK_DEADLOCK FALSE
