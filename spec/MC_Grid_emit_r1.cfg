SPECIFICATION Spec
CONSTANT R = 1
INVARIANT GridInv
INVARIANT EmitCell
CHECK_DEADLOCK FALSE
