CONSTANT M = 12
CONSTANT OnlySane = FALSE
SPECIFICATION Spec
INVARIANT Exactly
CHECK_DEADLOCK FALSE
