SPECIFICATION Spec
CONSTANT R = 2
INVARIANT GridInv
CHECK_DEADLOCK FALSE
