------------------------------- MODULE Trace_Path -------------------------------
(* Binds H3Path to the code (drift level): gridPathCells between cells of a pentagon-free patch, every cell of the result
   expressed in the local IJ coordinates of the start cell (cellToLocalIj).  In cube coordinates the result must be the
   model's line, sample by sample, except at exact ties (the code interpolates in doubles and may fall on either side). *)
EXTENDS TraceBase, H3Path
VARIABLE l
vars == <<l>>
Ev == Tr[l]
CubeOfIj(c) == <<-c[1], c[2], c[1] - c[2]>>
PathOK(e) ==
  e.r = 0 =>
    LET a == CubeOfIj(e.a)  b == CubeOfIj(e.b)  L == Line(a, b) IN
    /\ Len(e.p) = Len(L)
    /\ \A n \in 1..Len(L) : IsTie(a, b, n - 1) \/ CubeOfIj(e.p[n]) = L[n]
Init == l = 1
Next == l <= Len(Tr) /\ Ev.e = "pathIJ" /\ (IF PathOK(Ev) THEN TRUE ELSE FALSE) /\ l' = l + 1
Spec == Init /\ [][Next]_vars
=============================================================================
