------------------------------- MODULE H3LoopNorm -------------------------------
(* How the loop algorithms of polygonAlgos.h deal with the antimeridian (bboxFrom, pointInside, isClockwise; instantiated
   for GeoLoop - both polygon fills - and for LinkedGeoLoop - cellsToLinkedMultiPolygon, C16).

   Longitudes are integers in units of pi / M: -M is -180 degrees, M is +180 degrees.  Loop vertices sit on even
   longitudes, test points on odd ones (a point is never on a vertex' meridian).  A loop is a counter-clockwise
   "rectangle": the south edge (lat -1) from longitude w0 eastwards over W units with a vertex every 2 units, then the
   north edge (lat 1) back.  Longitudes are wrapped into -M .. M-2.

   Reference semantics: a point at latitude 0 is inside iff its longitude lies in the arc w0 .. w0 + W; the loop is not
   clockwise; its reverse is.  Implementation: transcribed below.  They agree unless the arc covers both the antimeridian
   and the prime meridian (Sane): there the normalisation "negative longitudes + 2 pi" tears the loop apart at
   longitude 0 - the design-level statement of the open C16 finding (DESIGN 11.3). *)
EXTENDS Integers, Sequences, FiniteSets
CONSTANT M
Wrap(x) == ((x + M) % (2 * M)) - M
Abs(x) == IF x < 0 THEN -x ELSE x
\* vertices as <<lat, lng>>
South(w0, W) == [i \in 1..(W \div 2 + 1) |-> <<-1, Wrap(w0 + 2 * (i - 1))>>]
North(w0, W) == [i \in 1..(W \div 2 + 1) |-> <<1, Wrap(w0 + W - 2 * (i - 1))>>]
Ccw(w0, W) == South(w0, W) \o North(w0, W)
Rev(s) == [i \in 1..Len(s) |-> s[Len(s) + 1 - i]]
NextOf(s, i) == s[(i % Len(s)) + 1]

\* ---- reference ----
ArcPoints(w0, W) == {Wrap(w0 + d) : d \in 1..(W - 1)}                 \* open arc
InsideRef(w0, W, p) == p \in ArcPoints(w0, W)
CoversSeam(w0, W) == w0 + W >= M                                       \* w0 in -M..M-2: the arc reaches or passes +-180 degrees
CoversZero(w0, W) == \E d \in 0..W : Wrap(w0 + d) = 0
Sane(w0, W) == ~(CoversSeam(w0, W) /\ CoversZero(w0, W))

\* ---- implementation (polygonAlgos.h) ----
Lngs(s) == {s[i][2] : i \in 1..Len(s)}
Min(S) == CHOOSE x \in S : \A y \in S : x <= y
Max(S) == CHOOSE x \in S : \A y \in S : x >= y
IsTransLoop(s) == \E i \in 1..Len(s) : Abs(s[i][2] - NextOf(s, i)[2]) > M
BBoxFrom(s) ==                                                          \* [w, e]; DBL_MAX defaults as +-(4M)
  LET pos == {x \in Lngs(s) : x > 0}  neg == {x \in Lngs(s) : x < 0} IN
  IF IsTransLoop(s) THEN [w |-> IF pos = {} THEN 4 * M ELSE Min(pos), e |-> IF neg = {} THEN -4 * M ELSE Max(neg)]
  ELSE [w |-> Min(Lngs(s)), e |-> Max(Lngs(s))]
BBoxTrans(b) == b.e < b.w
BBoxContainsLng(b, x) == IF BBoxTrans(b) THEN (x >= b.w \/ x <= b.e) ELSE (x >= b.w /\ x <= b.e)
Norm(x, t) == IF t /\ x < 0 THEN x + 2 * M ELSE x
\* ray casting at latitude 0: only the two meridian edges (lat -1 -> 1 or 1 -> -1) are hit; their longitude is constant
Crossings(s, t, lng) == {i \in 1..Len(s) : s[i][1] # NextOf(s, i)[1] /\ Norm(s[i][2], t) > lng}
InsideImpl(s, p) ==
  LET b == BBoxFrom(s) IN
  IF ~BBoxContainsLng(b, p) THEN FALSE
  ELSE Cardinality(Crossings(s, BBoxTrans(b), Norm(p, BBoxTrans(b)))) % 2 = 1
RECURSIVE SumFrom(_, _, _)
SumFrom(s, t, i) == IF i > Len(s) THEN 0
                    ELSE (Norm(NextOf(s, i)[2], t) - Norm(s[i][2], t)) * (NextOf(s, i)[1] + s[i][1]) + SumFrom(s, t, i + 1)
IsClockwiseImpl(s) == SumFrom(s, IsTransLoop(s), 1) > 0
=============================================================================
