------------------------------ MODULE Trace_C20 ------------------------------
EXTENDS H3Strings, TraceBase
VARIABLE l
E_MEMORY_BOUNDS == 14
Untouched(w) == w = <<349525, 10922, 21845, 10922>>

\* h3ToString(h, buf, sz): buf is logged in full after the call (it was filled with e.fill before)
ToStringOK(e) ==
  LET s == ToHex(e.h) IN
  /\ e.guard = 1 /\ Len(e.buf) = e.sz
  /\ IF e.sz >= 17
     THEN /\ e.r = 0
          /\ \A i \in 1..Len(s) : e.buf[i] = s[i]
          /\ e.buf[Len(s) + 1] = 0
          /\ \A i \in (Len(s) + 2)..e.sz : e.buf[i] = e.fill             \* nothing beyond the terminator
     ELSE /\ e.r = E_MEMORY_BOUNDS
          /\ \A i \in 1..e.sz : e.buf[i] = e.fill                        \* buffer untouched

\* stringToH3 of the string h3ToString produced
RoundTripOK(e) == e.s = ToHex(e.h) /\ e.r = 0 /\ e.o = e.h

\* stringToH3 of arbitrary bytes
ParseOK(e) ==
  IF ~StartsHexNumber(e.s) THEN e.r # 0 /\ Untouched(e.o)
  ELSE IF Len(e.s) \in 1..16 /\ AllHex(e.s) THEN e.r = 0 /\ Nibbles(e.o) = FromHexNibbles(e.s)
  ELSE TRUE                                                              \* signs, 0x, trailing text: unconstrained

EvOK(e) ==
  CASE e.e = "h3ToString" -> ToStringOK(e)
    [] e.e = "roundtrip"  -> RoundTripOK(e)
    [] e.e = "stringToH3" -> ParseOK(e)
    [] OTHER -> FALSE
Init == l = 1
Next == l <= Len(Tr) /\ IF EvOK(Tr[l]) THEN l' = l + 1 ELSE FALSE
Spec == Init /\ [][Next]_l
=============================================================================
