SPECIFICATION Spec
CONSTANT R = 3
INVARIANT GridInv
CHECK_DEADLOCK FALSE
