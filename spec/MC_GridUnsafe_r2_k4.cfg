SPECIFICATION Spec
CONSTANTS R = 2  K = 4
INVARIANT UnsafeClaims
CHECK_DEADLOCK FALSE
