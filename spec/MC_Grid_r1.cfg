SPECIFICATION Spec
CONSTANT R = 1
INVARIANT GridInv
CHECK_DEADLOCK FALSE
