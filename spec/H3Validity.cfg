SPECIFICATION Spec
INVARIANT Agree
INVARIANT TypeOK
VIEW view
CHECK_DEADLOCK FALSE
