------------------------------ MODULE Trace_VGraph ------------------------------
(* Model -> code binding of the vertex-graph model (H3VertexGraph.tla, C16): each event is one scenario of the model
   (cell boundaries as vertex id cycles in processing order, bucket count, base hash values; the two copies of a shared
   vertex hash to equal or adjacent values) replayed into the real vertexGraph.c primitives.  Whatever the hash values,
   the edges left in the graph must be exactly the outline of the cells: Boundary of H3LinkedGeo. *)
EXTENDS H3LinkedGeo, TraceBase
VARIABLE l
vars == <<l>>
Ev == Tr[l]
VGraphOK(e) ==
  LET B == Boundary(e.cb) IN
  /\ {<<e.out[i][1], e.out[i][2]>> : i \in 1..Len(e.out)} = B
  /\ Len(e.out) = Cardinality(B) /\ e.size = Cardinality(B)
Init == l = 1
Next == l <= Len(Tr) /\ (\/ Ev.e = "vgraph" /\ (IF VGraphOK(Ev) THEN TRUE ELSE FALSE)
                         \/ Ev.e = "vgraphAbsent") /\ l' = l + 1
Spec == Init /\ [][Next]_vars
=============================================================================
