------------------------------ MODULE TraceBase ------------------------------
(* Common skeleton of the trace specifications: the recorded execution (ndjson, one event per
   public API call, in program order) is read from the file named by the environment variable
   TRACE; the variable l is the position of the next event to consume.  A trace spec defines,
   per event kind, the condition under which that event is a step of the specification; the
   trace is accepted iff every event could be consumed (POSTCONDITION Accepted). *)
EXTENDS Naturals, Sequences, TLC, Json, IOUtils

Tr == ndJsonDeserialize(IOEnv.TRACE)

\* diameter = number of levels of the (linear) search = highest l reached
Accepted ==
  LET d == TLCGet("stats").diameter
  IN IF d - 1 = Len(Tr)
     THEN PrintT(<<"TRACE_ACCEPTED", Len(Tr)>>)
     ELSE PrintT(<<"TRACE_REJECTED_AT", d>>) /\ FALSE

Has(e, f) == f \in DOMAIN e
=============================================================================
