SPECIFICATION Spec
CONSTANTS R = 1  KLO = 12  KHI = 12
INVARIANT RingClaims
CHECK_DEADLOCK FALSE
