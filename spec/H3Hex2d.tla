------------------------------- MODULE H3Hex2d -------------------------------
(* The planar rounding step of latLngToCell (C02): _hex2dToCoordIJK (src/h3lib/lib/coordijk.c:56).

   A point of the face plane is given in exact rational arithmetic on the lattice of denominator D:
       |x| + |y|/sqrt(3) = p / D       (x1 in the code)          sx = sign of x  (-1 iff x < 0)
       2|y|/sqrt(3)      = q / D       (x2 in the code)          sy = sign of y  (-1 iff y < 0)
   with p, q naturals and 2p >= q.  In these skew coordinates the hexagon centres are the integer points and the
   squared Euclidean distance is the quadratic form u^2 - u*v + v^2, so both the implementation's nine-branch case
   analysis on the fractional parts and the reference "nearest centre" are integer computations.

   Impl(D,p,q,sx,sy)  transcribes the code: integer parts, the nine branches, the two axis folds, _ijkNormalize.
   Nearest(...)       is the reference: the set of lattice points at minimum distance from the point.
   The design claim (checked by MC_Hex2d for every lattice point of a block of hexagons in all four quadrants):
   Impl is in ijk+ normal form and names a point of Nearest. *)
EXTENDS Integers, FiniteSets

\* ---- implementation -------------------------------------------------------------------------
Branch(D, rp, rq) ==       \* <<di, dj>> added to the integer parts <<m1, m2>>
  IF 2 * rp < D
  THEN IF 3 * rp < D
       THEN IF 2 * rq < D + rp THEN <<0, 0>> ELSE <<0, 1>>
       ELSE <<(IF D - rp <= rq /\ rq < 2 * rp THEN 1 ELSE 0), (IF rq < D - rp THEN 0 ELSE 1)>>
  ELSE IF 3 * rp < 2 * D
       THEN <<(IF 2 * rp - D < rq /\ rq < D - rp THEN 0 ELSE 1), (IF rq < D - rp THEN 0 ELSE 1)>>
       ELSE IF 2 * rq < rp THEN <<1, 0>> ELSE <<1, 1>>

FoldX(i, j) ==             \* v->x < 0 ; j >= 0 here, so C's truncating division is floor
  IF j % 2 = 0 THEN LET axisi == j \div 2       diff == i - axisi IN <<i - 2 * diff, j>>
               ELSE LET axisi == (j + 1) \div 2 diff == i - axisi IN <<i - (2 * diff + 1), j>>
FoldY(i, j) == <<i - ((2 * j + 1) \div 2), -j>>       \* v->y < 0 ; j >= 0

Min2(a, b) == IF a < b THEN a ELSE b
Normalize(i0, j0, k0) ==   \* _ijkNormalize, statement for statement
  LET a == IF i0 < 0 THEN <<0, j0 - i0, k0 - i0>> ELSE <<i0, j0, k0>>
      b == IF a[2] < 0 THEN <<a[1] - a[2], 0, a[3] - a[2]>> ELSE a
      c == IF b[3] < 0 THEN <<b[1] - b[3], b[2] - b[3], 0>> ELSE b
      m == Min2(c[1], Min2(c[2], c[3]))
  IN <<c[1] - m, c[2] - m, c[3] - m>>

Impl(D, p, q, sx, sy) ==
  LET m1 == p \div D   m2 == q \div D
      b  == Branch(D, p % D, q % D)
      ij0 == <<m1 + b[1], m2 + b[2]>>
      ij1 == IF sx < 0 THEN FoldX(ij0[1], ij0[2]) ELSE ij0
      ij2 == IF sy < 0 THEN FoldY(ij1[1], ij1[2]) ELSE ij1
  IN Normalize(ij2[1], ij2[2], 0)

\* ---- reference ------------------------------------------------------------------------------
\* the point in skew coordinates, units 1/(2D)
S1(p, q, sx, sy) == sx * (2 * p - q) + sy * q
S2(q, sy) == 2 * sy * q
FloorDiv(a, b) == IF a >= 0 THEN a \div b ELSE -((-a + b - 1) \div b)
Norm(u, v) == u * u - u * v + v * v
Dist2(D, p, q, sx, sy, I, J) == Norm(S1(p, q, sx, sy) - 2 * D * I, S2(q, sy) - 2 * D * J)
Cands(D, p, q, sx, sy) ==
  LET fi == FloorDiv(S1(p, q, sx, sy), 2 * D)   fj == FloorDiv(S2(q, sy), 2 * D)
  IN {<<I, J>> : I \in (fi - 1)..(fi + 2), J \in (fj - 1)..(fj + 2)}
Nearest(D, p, q, sx, sy) ==
  LET C == Cands(D, p, q, sx, sy)
  IN {c \in C : \A o \in C : Dist2(D, p, q, sx, sy, c[1], c[2]) <= Dist2(D, p, q, sx, sy, o[1], o[2])}

IsIjkPlus(t) == t[1] >= 0 /\ t[2] >= 0 /\ t[3] >= 0 /\ (t[1] = 0 \/ t[2] = 0 \/ t[3] = 0)
\* the lattice point an ijk triple names
IJ(t) == <<t[1] - t[3], t[2] - t[3]>>

RoundsToNearest(D, p, q, sx, sy, t) == IsIjkPlus(t) /\ IJ(t) \in Nearest(D, p, q, sx, sy)
=============================================================================
