CONSTANT M = 12
CONSTANT OnlySane = FALSE
SPECIFICATION Spec
INVARIANT InsideOK
CHECK_DEADLOCK FALSE
