------------------------------ MODULE H3FaceIJK ------------------------------
(* The integer face lattice of H3: every cell has an address (face, i, j, k) on one of the 20
   icosahedron faces; addresses that run over a face edge are carried onto the neighbouring face by
   an exact integer rotate/translate ("overage").  Transcribed from coordijk.c (lattice operations),
   h3Index.c:851 _faceIjkToH3, :1004 _h3ToFaceIjk, faceijk.c:851 _adjustOverageClassII, :920
   _adjustPentVertOverage, :783/:608 _faceIjkToVerts / _faceIjkPentToVerts and h3Index.c:1115
   getIcosahedronFaces.  Everything between cellToLatLng and latLngToCell except one gnomonic
   projection and its inverse lives here, in integers.

   Checked by TLC (MC_FaceIJK): FaceIjkToH3(H3ToFaceIjk(h)) = h for every cell of the explored
   resolutions (the integer core of the C03 round trip); the six lattice translates of a cell,
   carried through the overage transform, are exactly its graph neighbours N(h) (two independent
   encodings of adjacency: digit tables vs face lattice); Faces(h) has 1-2 elements for a hexagon and
   exactly 5 for a pentagon (C19); the integer substrate vertices are shared by exactly three cells
   (the exact form of "boundaries tile the sphere", C08). *)
EXTENDS H3Grid

\* ---- CoordIJK arithmetic (coordijk.c) -------------------------------------------------------------
Min3(a, b, c) == IF a <= b THEN (IF a <= c THEN a ELSE c) ELSE (IF b <= c THEN b ELSE c)
Norm(c) ==                                  \* _ijkNormalize
  LET a == IF c[1] < 0 THEN <<0, c[2] - c[1], c[3] - c[1]>> ELSE c
      b == IF a[2] < 0 THEN <<a[1] - a[2], 0, a[3] - a[2]>> ELSE a
      d == IF b[3] < 0 THEN <<b[1] - b[3], b[2] - b[3], 0>> ELSE b
      m == Min3(d[1], d[2], d[3])
  IN IF m > 0 THEN <<d[1] - m, d[2] - m, d[3] - m>> ELSE d
Add(a, b) == <<a[1] + b[1], a[2] + b[2], a[3] + b[3]>>
Sub(a, b) == <<a[1] - b[1], a[2] - b[2], a[3] - b[3]>>
Scale(a, f) == <<a[1] * f, a[2] * f, a[3] * f>>
\* linear map given by the images of the three unit vectors, then normalise
Lin(c, iv, jv, kv) == Norm(Add(Add(Scale(iv, c[1]), Scale(jv, c[2])), Scale(kv, c[3])))
DownAp7(c)  == Lin(c, <<3, 0, 1>>, <<1, 3, 0>>, <<0, 1, 3>>)
DownAp7r(c) == Lin(c, <<3, 1, 0>>, <<0, 3, 1>>, <<1, 0, 3>>)
DownAp3(c)  == Lin(c, <<2, 0, 1>>, <<1, 2, 0>>, <<0, 1, 2>>)
DownAp3r(c) == Lin(c, <<2, 1, 0>>, <<0, 2, 1>>, <<1, 0, 2>>)
Rot60ccw(c) == Lin(c, <<1, 1, 0>>, <<0, 1, 1>>, <<1, 0, 1>>)
Rot60cw(c)  == Lin(c, <<1, 0, 1>>, <<1, 1, 0>>, <<0, 1, 1>>)
RECURSIVE Rot60ccwN(_, _)
Rot60ccwN(c, n) == IF n = 0 THEN c ELSE Rot60ccwN(Rot60ccw(c), n - 1)
\* lround(n / 7): 7 is odd, so there are no ties and nearest = floor((n + 3) / 7)
Round7(n) == (n + 3) \div 7
UpAp7(c)  == LET i == c[1] - c[3]   j == c[2] - c[3] IN Norm(<<Round7(3 * i - j), Round7(i + 2 * j), 0>>)
UpAp7r(c) == LET i == c[1] - c[3]   j == c[2] - c[3] IN Norm(<<Round7(2 * i + j), Round7(3 * j - i), 0>>)
NeighborIjk(c, d) == IF d \in 1..6 THEN Norm(Add(c, UNITVECS[d + 1])) ELSE c           \* _neighbor
UnitToDigit(c) == LET n == Norm(c)   S == {d \in 0..6 : UNITVECS[d + 1] = n}             \* _unitIjkToDigit
                  IN IF S = {} THEN 7 ELSE CHOOSE d \in S : TRUE

ClassIII(r) == r % 2 = 1
Sum3(c) == c[1] + c[2] + c[3]

\* ---- overage (faceijk.c:851) ------------------------------------------------------------------------
\* returns [ov |-> 0 none | 1 on a face edge | 2 new face, f |-> face, c |-> ijk]
AdjustOverage(f, c, res, pentLeading4, substrate) ==
  LET maxDim == IF substrate THEN 3 * MAXDIM[res + 1] ELSE MAXDIM[res + 1]
      s == Sum3(c)
  IN IF substrate /\ s = maxDim THEN [ov |-> 1, f |-> f, c |-> c]
     ELSE IF s > maxDim THEN
       LET quad == IF c[3] > 0 THEN (IF c[2] > 0 THEN 3 ELSE 2) ELSE 1            \* JK = 3, KI = 2, IJ = 1
           c1 == IF quad = 2 /\ pentLeading4
                 THEN LET origin == <<maxDim, 0, 0>> IN Add(Rot60cw(Sub(c, origin)), origin)
                 ELSE c
           o == FACENBR[f + 1][quad + 1]                                             \* <<face, ti, tj, tk, ccwRot60>>
           unit == IF substrate THEN 3 * UNITSCALE[res + 1] ELSE UNITSCALE[res + 1]
           c2 == Norm(Add(Rot60ccwN(c1, o[5]), Scale(<<o[2], o[3], o[4]>>, unit)))
       IN [ov |-> IF substrate /\ Sum3(c2) = maxDim THEN 1 ELSE 2, f |-> o[1], c |-> c2]
     ELSE [ov |-> 0, f |-> f, c |-> c]
RECURSIVE OverageLoop(_, _, _, _)                   \* while (_adjustOverageClassII(fijk, res, 0, substrate) != NO_OVERAGE)
OverageLoop(f, c, res, substrate) ==
  LET a == AdjustOverage(f, c, res, FALSE, substrate)
  IN IF a.ov = 0 THEN [f |-> f, c |-> c] ELSE OverageLoop(a.f, a.c, res, substrate)
RECURSIVE PentVertOverage(_, _, _)                  \* _adjustPentVertOverage: repeat while NEW_FACE
PentVertOverage(f, c, res) ==
  LET a == AdjustOverage(f, c, res, FALSE, TRUE)
  IN IF a.ov = 2 THEN PentVertOverage(a.f, a.c, res) ELSE [f |-> a.f, c |-> a.c, ov |-> a.ov]

\* ---- index -> face address (h3Index.c:976, :1004) ------------------------------------------------
RECURSIVE DigitsDown(_, _, _)
DigitsDown(c, ds, r) ==                               \* _h3ToFaceIjkWithInitializedFijk's loop
  IF r > Len(ds) THEN c
  ELSE DigitsDown(NeighborIjk(IF ClassIII(r) THEN DownAp7(c) ELSE DownAp7r(c), ds[r]), ds, r + 1)
H3ToFaceIjk(cell) ==
  LET b == cell.b   isP == IsPentBC(b)
      ds == IF isP /\ Lead(cell.d) = 5 THEN RotAllCw(cell.d) ELSE cell.d
      home == <<BCD[b + 1][2], BCD[b + 1][3], BCD[b + 1][4]>>
      f0 == BCD[b + 1][1]
      possibleOverage == ~(~isP /\ (cell.r = 0 \/ home = <<0, 0, 0>>))
      c0 == DigitsDown(home, ds, 1)
  IN IF ~possibleOverage THEN [f |-> f0, c |-> c0]
     ELSE LET cIII == ClassIII(cell.r)
              res == IF cIII THEN cell.r + 1 ELSE cell.r
              c1 == IF cIII THEN DownAp7r(c0) ELSE c0
              pl4 == isP /\ Lead(ds) = 4
              a == AdjustOverage(f0, c1, res, pl4, FALSE)
          IN IF a.ov # 0
             THEN LET b2 == IF isP THEN OverageLoop(a.f, a.c, res, FALSE) ELSE [f |-> a.f, c |-> a.c]
                  IN [f |-> b2.f, c |-> IF cIII THEN UpAp7r(b2.c) ELSE b2.c]
             ELSE [f |-> f0, c |-> c0]

\* ---- face address -> index (h3Index.c:851) ----------------------------------------------------------
InFace(c) == c[1] <= 2 /\ c[2] <= 2 /\ c[3] <= 2
BaseCellAt(f, c) == FIJKBC[f + 1][9 * c[1] + 3 * c[2] + c[3] + 1]                   \* <<baseCell, ccwRot60>>
RECURSIVE DigitsUp(_, _, _)
DigitsUp(c, r, acc) ==                                \* from the finest digit up; returns <<base ijk, digits>>
  IF r = 0 THEN <<c, acc>>
  ELSE LET up == IF ClassIII(r) THEN UpAp7(c) ELSE UpAp7r(c)
           center == IF ClassIII(r) THEN DownAp7(up) ELSE DownAp7r(up)
           dg == UnitToDigit(Sub(c, center))
       IN DigitsUp(up, r - 1, <<dg>> \o acc)
\* returns a cell record, or the record with b = 127 when the address is out of range (H3_NULL)
NullCell == [r |-> 0, b |-> 127, d |-> <<>>]
FaceIjkToH3(f, c, res) ==
  LET u == DigitsUp(c, res, <<>>)
      cb == u[1]   ds == u[2]
  IN IF ~InFace(cb) THEN NullCell
     ELSE LET bcr == BaseCellAt(f, cb)   b == bcr[1]   numRots == bcr[2]
          IN IF IsPentBC(b)
             THEN LET ds1 == IF Lead(ds) = 1 THEN (IF CwOff(b, f) THEN RotAllCw(ds) ELSE RotAllCcw(ds)) ELSE ds
                  IN [r |-> res, b |-> b, d |-> RotPentCcwN(ds1, numRots)]
             ELSE [r |-> res, b |-> b, d |-> RotAllCcwN(ds, numRots)]

\* ---- lattice neighbours: the six unit translates carried through the overage transform --------------
LatticeNbr(cell, d) ==
  LET a == H3ToFaceIjk(cell)
      c1 == NeighborIjk(a.c, d)
      cIII == ClassIII(cell.r)
      res == IF cIII THEN cell.r + 1 ELSE cell.r
      c2 == IF cIII THEN DownAp7r(c1) ELSE c1
      o == OverageLoop(a.f, c2, res, FALSE)
  IN FaceIjkToH3(o.f, IF cIII THEN UpAp7r(o.c) ELSE o.c, cell.r)
LatticeN(cell) == {LatticeNbr(cell, d) : d \in 1..6} \ {cell}

\* ---- substrate vertices and faces (faceijk.c:783, :608; h3Index.c:1115) ----------------------------
VertsCII  == << <<2,1,0>>, <<1,2,0>>, <<0,2,1>>, <<0,1,2>>, <<1,0,2>>, <<2,0,1>> >>
VertsCIII == << <<5,4,0>>, <<1,5,0>>, <<0,5,4>>, <<0,1,5>>, <<4,0,5>>, <<5,0,1>> >>
\* substrate vertex v (1..6, pentagon 1..5) of a cell, before any overage adjustment: [f, c, res]
SubstrateVert(cell, v) ==
  LET a == H3ToFaceIjk(cell)
      cIII == ClassIII(cell.r)
      c0 == DownAp3r(DownAp3(a.c))
      c1 == IF cIII THEN DownAp7r(c0) ELSE c0
      vv == IF cIII THEN VertsCIII[v] ELSE VertsCII[v]
  IN [f |-> a.f, c |-> Norm(Add(c1, vv)), res |-> IF cIII THEN cell.r + 1 ELSE cell.r]
NumVerts(cell) == IF IsPentC(cell) THEN 5 ELSE 6
\* the vertex after overage adjustment (what getIcosahedronFaces and the boundary functions look at)
AdjustedVert(cell, v) ==
  LET s == SubstrateVert(cell, v)
  IN IF IsPentC(cell) THEN PentVertOverage(s.f, s.c, s.res)
     ELSE LET a == AdjustOverage(s.f, s.c, s.res, FALSE, TRUE) IN [f |-> a.f, c |-> a.c, ov |-> a.ov]
\* getIcosahedronFaces: Class II pentagons are redirected to their centre child
FacesCell(cell) == IF IsPentC(cell) /\ ~ClassIII(cell.r) THEN [r |-> cell.r + 1, b |-> cell.b, d |-> Append(cell.d, 0)] ELSE cell
Faces(cell) == LET x == FacesCell(cell) IN {AdjustedVert(x, v).f : v \in 1..NumVerts(x)}

\* ---- how many points cellToBoundary returns (faceijk.c:672 _faceIjkToCellBoundary) --------------------------
\* A hexagon of a Class III resolution gets an extra point on every edge whose two corners end up on different icosahedron
\* faces, unless one of the two corners lies exactly on the icosahedron edge (then both halves of the cell edge are on single
\* faces).  The code walks the corners 0..5 and then 0 again, comparing each with its predecessor.
Cyc6(v) == ((v - 1) % 6) + 1
DistortionBefore(cell, v) ==        \* an extra point between corner v-1 and corner v (corners 1..6, cyclic)
  LET a == AdjustedVert(cell, v)   b == AdjustedVert(cell, Cyc6(v + 5)) IN
  a.f # b.f /\ b.ov # 1 /\ a.ov # 1
\* the boundary of a Class III hexagon as a pattern: TRUE = corner, FALSE = extra point, in the order the code emits them
\* (corner 1, [extra], corner 2, ..., corner 6, [extra before corner 1])
HexBoundaryPattern(cell) ==
  LET part(v) == IF DistortionBefore(cell, v) THEN <<FALSE, TRUE>> ELSE <<TRUE>> IN
  <<TRUE>> \o part(2) \o part(3) \o part(4) \o part(5) \o part(6) \o (IF DistortionBefore(cell, 1) THEN <<FALSE>> ELSE <<>>)
BoundaryPoints(cell) ==
  IF IsPentC(cell) THEN (IF ClassIII(cell.r) THEN 10 ELSE 5)
  ELSE IF ~ClassIII(cell.r) THEN 6
  ELSE 6 + Cardinality({v \in 1..6 : DistortionBefore(cell, v)})

\* ---- canonical integer vertex identity --------------------------------------------------------------
\* An adjusted substrate vertex lying exactly on an icosahedron edge (sum = 3*maxDim) has two face
\* representations; the second is obtained by pushing it over that edge with the same transform.
\* The canonical id is the smaller of the representations (as <<face, i, j, k>> tuples).
TupLess(a, b) == \/ a[1] < b[1] \/ (a[1] = b[1] /\ a[2] < b[2]) \/ (a[1] = b[1] /\ a[2] = b[2] /\ a[3] < b[3])
                 \/ (a[1] = b[1] /\ a[2] = b[2] /\ a[3] = b[3] /\ a[4] < b[4])
OtherSide(f, c, res) ==      \* the representation of an on-edge point on the face across that edge
  LET maxDim == 3 * MAXDIM[res + 1]
      quad == IF c[3] > 0 THEN (IF c[2] > 0 THEN 3 ELSE 2) ELSE 1
      o == FACENBR[f + 1][quad + 1]
      c2 == Norm(Add(Rot60ccwN(c, o[5]), Scale(<<o[2], o[3], o[4]>>, 3 * UNITSCALE[res + 1])))
  IN <<o[1], c2[1], c2[2], c2[3]>>
\* an on-edge point with two zero components is an icosahedron vertex (only pentagon centres are there; no cell corner is)
VertexId(cell, v) ==
  LET a == AdjustedVert(cell, v)
      s == SubstrateVert(cell, v)
      me == <<a.f, a.c[1], a.c[2], a.c[3]>>
  IN IF Sum3(a.c) = 3 * MAXDIM[s.res + 1]
     THEN LET ot == OtherSide(a.f, a.c, s.res) IN IF TupLess(ot, me) THEN ot ELSE me
     ELSE me
=============================================================================
