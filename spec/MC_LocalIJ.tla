------------------------------- MODULE MC_LocalIJ -------------------------------
(* Every cell of resolution R as origin; every target within K steps (breadth-first layers of H3Grid).  *)
EXTENDS H3LocalIJ, TLC
CONSTANTS R, K
VARIABLE c
Init == c = [r |-> R, b |-> 0, d |-> SubSeq(<<0,0,0,0,0,0,0,0,0,0,0,0,0,0,0>>, 1, R)]
Next == \E dd \in Dirs : NbrOk(c, dd) /\ c' = NbrCell(c, dd)
Spec == Init /\ [][Next]_c
LocalIJClaims ==
  LET L == Layers(c, K)
      self == CellToLocalIjk(c, c)
  IN /\ self[1] = "ok"                                                  \* a cell can always place itself
     /\ \A i \in 1..(K + 1) : \A t \in L[i] :
          LET x == CellToLocalIjk(c, t) IN
          x[1] = "ok" =>
            /\ IjkDistance(self[2], x[2]) = i - 1                        \* a successful distance is the graph distance
            /\ LET back == LocalIjkToCell(c, x[2]) IN back[1] = "ok" /\ back[2] = t      \* the chart is invertible where defined
            /\ LET rev == GridDistance(t, c) IN rev = -1 \/ rev = i - 1   \* symmetric whenever both directions succeed
     /\ \A t \in L[2] : CellToLocalIjk(c, t)[1] = "ok"                   \* neighbours are always reachable (distance 1)
\* statistics for the evidence: how many targets within K steps could be placed / not placed from this origin
EmitStats == LET D == Disk(c, K) IN PrintT(<<"LOCALIJ", Cardinality({t \in D : CellToLocalIjk(c, t)[1] = "ok"}), Cardinality(D)>>)
=============================================================================
