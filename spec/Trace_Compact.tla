----------------------------- MODULE Trace_Compact -----------------------------
(* Trace specification for compactCells / uncompactCells / uncompactCellsSize (C06). *)
EXTENDS H3Compact, TraceBase
VARIABLE l
E_SUCCESS == 0   E_RES_MISMATCH == 12   E_MEMORY_BOUNDS == 14
Untouched(w) == w = <<349525, 10922, 21845, 10922>>
SeqSet(s) == {s[i] : i \in 1..Len(s)}
NonNull(s) == SelectSeq(s, LAMBDA w : ~IsNull(w))

\* compactCells on a set of distinct valid cells of one resolution (the driver guarantees the precondition;
\* it is re-checked here and the event is unconstrained if it does not hold)
CompactOK(e) ==
  LET S == SeqSet(e.in)   r == Res(e.in[1])
      pre == /\ Cardinality(S) = Len(e.in) /\ \A x \in S : ValidCell(x) /\ Res(x) = r
      out == NonNull(e.out)
  IN pre =>
     /\ e.r = E_SUCCESS /\ e.guard = 1
     /\ Len(e.out) = Len(e.in)                              \* documented output size
     /\ Canonical(out, S, r)                                \* valid, antichain, no full sibling set, expands to S
     /\ SeqSet(out) = Compact(S, r)                         \* = the reference result (order free)

SizeOK(e) ==
  LET cs == NonNull(e.cs) IN
  IF \E i \in 1..Len(cs) : Res(cs[i]) > e.res THEN e.r = E_RES_MISMATCH
  ELSE e.r = E_SUCCESS /\ e.n.s = 0 /\ e.n.l = SumCounts(cs, e.res)

\* uncompactCells(cs, out[cap], res); expected size n is small here
UncompactOK(e) ==
  LET cs == e.cs
      fine == \E i \in 1..Len(cs) : Res(cs[i]) > e.res
      want == UNION {{WordOf(y) : y \in ChildrenC(CellOf(cs[i]), e.res)} : i \in 1..Len(cs)}
      n == Cardinality(want)
  IN /\ e.guard = 1 /\ Len(e.out) = e.cap
     /\ IF fine THEN e.r = E_RES_MISMATCH
        ELSE IF e.cap < n THEN e.r = E_MEMORY_BOUNDS
        ELSE /\ e.r = E_SUCCESS
             /\ {e.out[i] : i \in 1..n} = want
             /\ \A i \in (n + 1)..e.cap : Untouched(e.out[i])

EvOK(e) ==
  CASE e.e = "compact"       -> CompactOK(e)
    [] e.e = "uncompactSize" -> SizeOK(e)
    [] e.e = "uncompact"     -> UncompactOK(e)
    [] OTHER -> FALSE
Init == l = 1
Next == l <= Len(Tr) /\ IF EvOK(Tr[l]) THEN l' = l + 1 ELSE FALSE
Spec == Init /\ [][Next]_l
=============================================================================
