SPECIFICATION TSpec
CONSTANTS Threads = {1, 2, 3}
 Calls = {1, 2}
 Variant = "scratch"
 MaxCalls = 2
INVARIANT SequentialResults
CHECK_DEADLOCK FALSE
