----------------------------- MODULE H3CompactAlgo -----------------------------
(* One round of compactCells (h3Index.c:465) as a state machine over an abstract hash table (C06).

   A round gets n cells whose parents are 1..NP; parent p has Kids[p] of its children among them (a pentagon parent has at
   most 6 children, a hexagon parent 7).  The code hashes every cell's parent into a table of n slots (n = number of cells
   of this round; the array itself is longer in later rounds: Cap slots), counts the children of a parent in the reserved
   bits of its slot (the slot is cleared and rewritten with the incremented count), then scans slots 0..n-1 for complete
   parents, then looks every cell's parent up again to decide whether the cell is copied to the output or replaced by its
   parent in the next round.

   Arbitrary here: the hash function (any map from parents to slots, so every collision pattern), the order in which the
   cells are presented, the multiset of children.  Checked:
     - the insert probe and the lookup probe terminate within n steps (the NEVER branches are unreachable);
     - after the inserts every parent with children has exactly one slot, holding count = children - 1;
     - the scan finds exactly the complete parents, and they fit in the buffer of n/6 entries;
     - the lookup classifies a cell as compactable exactly when its parent is complete;
     - with ProbeMod = "cap" (probing modulo the allocated length instead of n: a plausible slip that is invisible in the
       first round) the round loses complete parents: negative control. *)
EXTENDS Naturals, Sequences, FiniteSets
CONSTANTS NP,          \* number of distinct parents
          PentParents, \* which of them are pentagons
          MaxN,        \* at most this many cells in the round
          Extra,       \* Cap = n + Extra (slots allocated beyond the n used in this round)
          ProbeMod     \* "n" (as written) | "cap" (negative control)
Parents == 1..NP
Limit(p) == IF p \in PentParents THEN 6 ELSE 7
Empty == [p |-> 0, cnt |-> 0]

VARIABLES kids, hash, n, table, todo, phase, bad
vars == <<kids, hash, n, table, todo, phase, bad>>
Cap == n + Extra
M == IF ProbeMod = "n" THEN n ELSE Cap

\* insert probe: returns <<table', probes, neverBranch>>
RECURSIVE InsertAt(_, _, _, _, _)
InsertAt(t, p, loc, cnt, loops) ==
  IF t[loc].p = 0 THEN LET t1 == [t EXCEPT ![loc] = [p |-> p, cnt |-> cnt]] IN <<t1, loops, FALSE>>
  ELSE IF loops > n THEN <<t, loops, TRUE>>
  ELSE IF t[loc].p = p THEN InsertAt([t EXCEPT ![loc] = Empty], p, loc, t[loc].cnt + 1, loops + 1)   \* clear, then rewrite with the count
  ELSE InsertAt(t, p, (loc + 1) % M, cnt, loops + 1)
\* lookup probe (the do-while of the third phase): <<found count + 1 or 0, neverBranch>>
RECURSIVE LookupAt(_, _, _, _)
LookupAt(t, p, loc, loops) ==
  IF loops > n THEN <<0, TRUE>>
  ELSE IF t[loc].p = p THEN <<t[loc].cnt + 1, FALSE>>
  ELSE LookupAt(t, p, (loc + 1) % M, loops + 1)

Total(k) == LET RECURSIVE S(_) S(i) == IF i = 0 THEN 0 ELSE k[i] + S(i - 1) IN S(NP)
Init == /\ kids \in {k \in [Parents -> 0..7] : (\A p \in Parents : k[p] <= Limit(p)) /\ Total(k) \in 1..MaxN}
        /\ n = Total(kids)
        /\ hash \in [Parents -> 0..(Total(kids) - 1)]
        /\ table = [i \in 0..(Total(kids) + Extra - 1) |-> Empty]
        /\ todo = kids /\ phase = "insert" /\ bad = FALSE
\* present the next cell: any parent that still has cells to present (arbitrary order)
Insert(p) == /\ phase = "insert" /\ todo[p] > 0
             /\ LET r == InsertAt(table, p, hash[p], 0, 0) IN table' = r[1] /\ bad' = (bad \/ r[3])
             /\ todo' = [todo EXCEPT ![p] = @ - 1]
             /\ UNCHANGED <<kids, hash, n, phase>>
EndInsert == /\ phase = "insert" /\ \A p \in Parents : todo[p] = 0
             /\ phase' = "done" /\ UNCHANGED <<kids, hash, n, table, todo, bad>>
Next == (\E p \in Parents : Insert(p)) \/ EndInsert \/ (phase = "done" /\ UNCHANGED vars)
Spec == Init /\ [][Next]_vars

\* ---- what must hold -------------------------------------------------------------------------
Complete(p) == kids[p] = Limit(p)
\* second phase: the scan over slots 0..n-1 (pentagon parents get their count bumped so that 7 means complete)
ScanFinds == {table[i].p : i \in {j \in 0..(n - 1) : table[j].p # 0 /\ table[j].cnt + 1 + (IF table[j].p \in PentParents THEN 1 ELSE 0) = 7}}
TableAfterScan == [i \in DOMAIN table |-> IF i < n /\ table[i].p # 0 /\ table[i].p \in PentParents
                                          THEN [table[i] EXCEPT !.cnt = @ + 1] ELSE table[i]]
NoNever == ~bad
Counted == phase = "done" =>
             \A p \in Parents : kids[p] > 0 =>
                /\ Cardinality({i \in DOMAIN table : table[i].p = p}) = 1
                /\ \A i \in DOMAIN table : table[i].p = p => table[i].cnt = kids[p] - 1
ScanExact == phase = "done" => /\ ScanFinds = {p \in Parents : Complete(p)}
                               /\ Cardinality(ScanFinds) <= n \div 6                        \* fits compactableHexes
LookupExact == phase = "done" =>
                 \A p \in Parents : kids[p] > 0 =>
                    LET r == LookupAt(TableAfterScan, p, hash[p], 0) IN ~r[2] /\ ((r[1] = 7) = Complete(p))
=============================================================================
