------------------------------ MODULE H3GridUnsafe ------------------------------
(* The "unsafe" ring walks of algos.c as functions of the neighbour step Nbr of H3Grid (C05):
     gridDiskDistancesUnsafe (algos.c:565)  spiral outwards ring by ring, rotation bookkeeping carried along, bail out on any
                                            pentagon or failed step
     gridRingUnsafe          (algos.c:692)  climb k steps in the I direction, walk the six sides of the ring, and compare the
                                            end of the walk with its start (the closure test) to detect pentagon distortion
   transcribed loop for loop.  The design claim of C05 is that each of them either reports an error or returns exactly the
   breadth-first disk in ring order (each cell with its true distance) / exactly the breadth-first ring.  MC_GridUnsafe
   checks the claim from every origin of a resolution for k up to a bound, against Layers / Ring of H3Grid.  The claim is
   not obvious: a hollow ring can run round a pentagon without touching it and then rests on the closure test alone. *)
EXTENDS H3Grid
DIRS == <<2, 3, 1, 5, 4, 6>>          \* DIRECTIONS: J, JK, K, IK, I, IJ
NEXTRING == 4                         \* NEXT_RING_DIRECTION: I

\* gridDiskDistancesUnsafe: <<status, sequence of <<cell, ring>>>>
RECURSIVE DiskWalk(_, _, _, _, _, _, _)
DiskWalk(c, rot, ring, dir, i, k, out) ==
  IF ring > k THEN <<"ok", out>>
  ELSE LET first == dir = 0 /\ i = 0
           pre == IF first THEN Nbr(c, NEXTRING, rot) ELSE <<"ok", c, rot>>
       IN IF pre[1] # "ok" THEN <<"err", out>>
          ELSE IF first /\ IsPentC(pre[2]) THEN <<"err", out>>
          ELSE LET st == Nbr(pre[2], DIRS[dir + 1], pre[3]) IN
               IF st[1] # "ok" THEN <<"err", out>>
               ELSE LET out1 == Append(out, <<st[2], ring>>)
                        endSide == i + 1 = ring
                        dir1 == IF endSide THEN dir + 1 ELSE dir
                        endRing == endSide /\ dir1 = 6
                    IN IF IsPentC(st[2]) THEN <<"err", out1>>
                       ELSE DiskWalk(st[2], st[3], IF endRing THEN ring + 1 ELSE ring, IF endRing THEN 0 ELSE dir1,
                                     IF endSide THEN 0 ELSE i + 1, k, out1)
UnsafeDisk(o, k) == IF IsPentC(o) THEN <<"err", <<<<o, 0>>>>>> ELSE DiskWalk(o, 0, 1, 0, 0, k, <<<<o, 0>>>>)

\* gridRingUnsafe: <<status, sequence of cells>>
RECURSIVE Climb(_, _, _)
Climb(c, rot, n) == IF n = 0 THEN <<"ok", c, rot>>
                    ELSE LET s == Nbr(c, NEXTRING, rot) IN
                         IF s[1] # "ok" \/ IsPentC(s[2]) THEN <<"err", c, rot>> ELSE Climb(s[2], s[3], n - 1)
RECURSIVE RingWalk(_, _, _, _, _, _, _)
RingWalk(c, rot, dir, pos, k, out, last) ==
  IF dir = 6 THEN (IF c = last THEN <<"ok", out>> ELSE <<"err", out>>)            \* the closure test
  ELSE LET st == Nbr(c, DIRS[dir + 1], rot) IN
       IF st[1] # "ok" THEN <<"err", out>>
       ELSE LET skip == pos = k - 1 /\ dir = 5
                out1 == IF skip THEN out ELSE Append(out, st[2])
            IN IF ~skip /\ IsPentC(st[2]) THEN <<"err", out1>>
               ELSE RingWalk(st[2], st[3], IF pos = k - 1 THEN dir + 1 ELSE dir, IF pos = k - 1 THEN 0 ELSE pos + 1, k, out1, last)
UnsafeRing(o, k) ==
  IF k = 0 THEN <<"ok", <<o>>>>
  ELSE IF IsPentC(o) THEN <<"err", <<>>>>
  ELSE LET top == Climb(o, 0, k) IN
       IF top[1] # "ok" THEN <<"err", <<>>>> ELSE RingWalk(top[2], top[3], 0, 0, k, <<top[2]>>, top[2])

\* ---- the design claim ------------------------------------------------------------------------
DiskClaim(o, k) ==
  LET w == UnsafeDisk(o, k) IN
  w[1] = "ok" =>
    LET L == Layers(o, k)   out == w[2] IN
    /\ Len(out) = MaxDiskSize(k)
    /\ \A x \in 1..Len(out) : out[x][1] \in L[out[x][2] + 1]                         \* each cell at its true distance
    /\ \A x, y \in 1..Len(out) : x < y => out[x][1] # out[y][1]                       \* no duplicates
    /\ \A x \in 1..(Len(out) - 1) : out[x][2] <= out[x + 1][2]                        \* ring order
RingClaim(o, k) ==
  LET w == UnsafeRing(o, k) IN
  w[1] = "ok" => /\ Range(w[2]) = Ring(o, k) /\ Len(w[2]) = (IF k = 0 THEN 1 ELSE 6 * k) /\ NoDup(w[2])
=============================================================================
