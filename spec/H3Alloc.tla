------------------------------- MODULE H3Alloc -------------------------------
(* The allocator contract of the library (C17; release clauses of C16).

   State: the set of live blocks, the number of allocations attempted in the current call, the
   fault plan of the current call, whether an allocation has been refused in it, and the blocks
   that were live when the call started.  Actions: Call, Alloc (malloc/calloc through the
   H3_ALLOC_PREFIX seam), Free, Return.  A Free of a block that is not live (double free, foreign
   pointer) is simply not a step of this specification.

   Contract checked at every Return of the functions C17 names:
     - every block allocated during the call has been freed (live = live at call time);
     - if an allocation was refused, the call returned E_MEMORY_ALLOC;
     - if none was refused, return code and outputs equal those of the default-allocator run.
   cellsToLinkedMultiPolygon may retain its result; destroyLinkedMultiPolygon must then release
   everything. *)
EXTENDS Naturals, Sequences, FiniteSets

E_MEMORY_ALLOC == 13
Retaining == {"cellsToLinkedMultiPolygon"}                 \* functions whose successful result owns memory
MustReportFailure == {"compactCells", "gridDisk", "gridDiskDistances", "areNeighborCells", "polygonToCells",
                      "polygonToCellsExperimental", "maxPolygonToCellsSizeExperimental"}

\* plan = [kind |-> "never" | "nth" | "from", i |-> Nat]
ShouldFail(plan, n) == \/ plan.kind = "nth" /\ n = plan.i
                       \/ plan.kind = "from" /\ n >= plan.i

VARIABLES live, nalloc, failed, plan, incall, base, fn
avars == <<live, nalloc, failed, plan, incall, base, fn>>

AInit == /\ live = {} /\ nalloc = 0 /\ failed = FALSE /\ plan = [kind |-> "never", i |-> 0]
         /\ incall = FALSE /\ base = {} /\ fn = ""

ACall(f, p) ==
  /\ ~incall
  /\ incall' = TRUE /\ fn' = f /\ plan' = p /\ nalloc' = 0 /\ failed' = FALSE /\ base' = live
  /\ UNCHANGED live

\* an allocation attempt; ok says whether the seam handed out a block (it must follow the plan)
AAlloc(id, ok) ==
  /\ incall
  /\ nalloc' = nalloc + 1
  /\ ok = ~ShouldFail(plan, nalloc + 1)
  /\ IF ok THEN id \notin live /\ live' = live \cup {id} /\ failed' = failed
           ELSE live' = live /\ failed' = TRUE
  /\ UNCHANGED <<plan, incall, base, fn>>

AFree(id) ==
  /\ incall
  /\ id \in live                              \* not live: double free or foreign pointer -> not a behaviour
  /\ live' = live \ {id}
  /\ UNCHANGED <<nalloc, failed, plan, incall, base, fn>>

AFreeNull == incall /\ UNCHANGED avars        \* free(NULL) is a no-op

\* r: return code; same: outputs and code equal the default-allocator reference (TRUE when there is no reference)
AReturn(f, r, same) ==
  /\ incall /\ f = fn
  /\ IF f \in Retaining /\ r = 0 THEN base \subseteq live
     ELSE IF f = "destroyLinkedMultiPolygon" THEN live = {}
     ELSE live = base                                                  \* nothing leaked, nothing of the caller's freed
  /\ (failed /\ f \in MustReportFailure => r = E_MEMORY_ALLOC)
  /\ (~failed => same)
  /\ incall' = FALSE
  /\ UNCHANGED <<live, nalloc, failed, plan, base, fn>>
=============================================================================
