SPECIFICATION Spec
CONSTANTS R = 1  KLO = 5  KHI = 11
INVARIANT RingClaims
CHECK_DEADLOCK FALSE
