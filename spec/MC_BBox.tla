--------------------------------- MODULE MC_BBox ---------------------------------
(* Every pair of boxes with longitudes on the grid -H..H (latitudes collapsed to three bands), both plain and
   transmeridian, and every grid point.  Boxes narrower than half the globe (the fills only build such boxes: polygons
   are less than 180 degrees wide and cells are small), see Sane. *)
EXTENDS H3BBox
VARIABLES a, b
vars == <<a, b>>
Width(x) == IF x.e < x.w THEN x.e + 2 * H - x.w ELSE x.e - x.w
Sane(x) == Width(x) < H /\ x.s <= x.n
Boxes == {x \in [n : -1..1, s : -1..1, e : (1 - H)..(H - 1), w : (1 - H)..(H - 1)] : Sane(x)}     \* no edge exactly on the antimeridian
Init == a \in Boxes /\ b \in Boxes
Next == UNCHANGED vars
Spec == Init /\ [][Next]_vars
PointOK == \A lat \in -1..1 : \A lng \in (-H)..H : ContainsImpl(a, lat, lng) = ContainsRef(a, lat, lng)
OverlapOK == OverlapsImpl(a, b) = OverlapsRef(a, b)
ContainsOK == ContainsBBoxImpl(a, b) = ContainsBBoxRef(a, b)
=============================================================================
