CONSTANTS CB <- TwoCells  NB = 3  HMax = 1  Lookup = "near"
SPECIFICATION Spec
INVARIANT OutlineExact
CHECK_DEADLOCK FALSE
