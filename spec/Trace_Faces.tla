------------------------------ MODULE Trace_Faces ------------------------------
(* C19: getIcosahedronFaces / maxFaceCount against Faces(h) of the integer face lattice, plus the
   geometric cross-observation (nearest icosahedron face of interior sample points). *)
EXTENDS H3FaceIJK, TraceBase, FiniteSets
VARIABLE l
FacesOK(e) ==
  LET c == CellOf(e.h)
      rep == {e.o[i] : i \in {j \in 1..Len(e.o) : e.o[j] # -1}}
  IN /\ ValidCell(e.h)
     /\ e.rm = 0 /\ e.mfc = (IF IsPentC(c) THEN 5 ELSE 2)
     /\ e.r = 0 /\ e.guard = 1 /\ Len(e.o) = e.mfc
     /\ \A i \in 1..Len(e.o) : e.o[i] \in -1..19
     /\ Cardinality(rep) = Cardinality({j \in 1..Len(e.o) : e.o[j] # -1})      \* distinct
     /\ IF IsPentC(c) THEN Cardinality(rep) = 5 ELSE Cardinality(rep) \in {1, 2}
     /\ rep = Faces(c)                                                         \* the faces of the lattice model
     \* geometric observation: faces of unambiguous interior sample points (e.wit) and the reported set coincide
     /\ (Has(e, "wit") => {e.wit[i] : i \in 1..Len(e.wit)} \subseteq rep)
     /\ (Has(e, "wit") /\ e.witall = 1 => rep \subseteq {e.wit[i] : i \in 1..Len(e.wit)})
EvOK(e) == CASE e.e = "faces" -> FacesOK(e) [] OTHER -> FALSE
Init == l = 1
Next == l <= Len(Tr) /\ IF EvOK(Tr[l]) THEN l' = l + 1 ELSE FALSE
Spec == Init /\ [][Next]_l
=============================================================================
