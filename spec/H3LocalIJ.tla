------------------------------- MODULE H3LocalIJ -------------------------------
(* cellToLocalIjk / localIjkToCell (src/h3lib/lib/localij.c:132, :302) transcribed branch for branch, over the integer
   lattice operators of H3FaceIJK and the frozen base-cell tables (C09, C14).

   These are the functions behind cellToLocalIj, localIjToCell, gridDistance and gridPathCells.  The API promises no
   particular coordinates, so nothing in the trace specifications compares coordinates with this transcription (that would
   be MODEL-DRIFT at most).  What the transcription is for is the design claim of C09, checked by MC_LocalIJ from every
   origin of a resolution against the breadth-first distance of H3Grid:
     - whenever both unfoldings succeed, the hex-grid distance of the two coordinates is the true graph distance
       (this is where FAILED_DIRECTIONS matters: an unfolding across two icosahedron faces round a pentagon would give a
       wrong successful distance);
     - localIjkToCell inverts cellToLocalIjk wherever the latter succeeds;
     - the distance is symmetric whenever both directions succeed, is 0 from a cell to itself and 1 to every neighbour.
   The five tables below are frozen from the pinned tree like H3Tables (index [row + 1][column + 1]). *)
EXTENDS H3FaceIJK

PR == <<<<0, -1, 0, 0, 0, 0, 0>>,
        <<-1, -1, -1, -1, -1, -1, -1>>,
        <<0, -1, 0, 0, 0, 1, 0>>,
        <<0, -1, 0, 0, 1, 1, 0>>,
        <<0, -1, 0, 5, 0, 0, 0>>,
        <<0, -1, 5, 5, 0, 0, 0>>,
        <<0, -1, 0, 0, 0, 0, 0>>>>          \* PENTAGON_ROTATIONS
PRR == <<<<0, 0, 0, 0, 0, 0, 0>>,
        <<-1, -1, -1, -1, -1, -1, -1>>,
        <<0, 1, 0, 0, 0, 0, 0>>,
        <<0, 1, 0, 0, 0, 1, 0>>,
        <<0, 5, 0, 0, 0, 0, 0>>,
        <<0, 5, 0, 5, 0, 0, 0>>,
        <<0, 0, 0, 0, 0, 0, 0>>>>         \* PENTAGON_ROTATIONS_REVERSE
PRRN == <<<<0, 0, 0, 0, 0, 0, 0>>,
        <<-1, -1, -1, -1, -1, -1, -1>>,
        <<0, 1, 0, 0, 0, 0, 0>>,
        <<0, 1, 0, 0, 0, 1, 0>>,
        <<0, 5, 0, 0, 0, 0, 0>>,
        <<0, 1, 0, 5, 1, 1, 0>>,
        <<0, 0, 0, 0, 0, 0, 0>>>>        \* ..._NONPOLAR
PRRP == <<<<0, 0, 0, 0, 0, 0, 0>>,
        <<-1, -1, -1, -1, -1, -1, -1>>,
        <<0, 1, 1, 1, 1, 1, 1>>,
        <<0, 1, 0, 0, 0, 1, 0>>,
        <<0, 1, 0, 0, 1, 1, 1>>,
        <<0, 1, 0, 5, 1, 1, 0>>,
        <<0, 1, 1, 0, 1, 1, 1>>>>        \* ..._POLAR
FAILED == <<<<FALSE, FALSE, FALSE, FALSE, FALSE, FALSE, FALSE>>,
        <<FALSE, FALSE, FALSE, FALSE, FALSE, FALSE, FALSE>>,
        <<FALSE, FALSE, FALSE, FALSE, TRUE, TRUE, FALSE>>,
        <<FALSE, FALSE, FALSE, FALSE, TRUE, FALSE, TRUE>>,
        <<FALSE, FALSE, TRUE, TRUE, FALSE, FALSE, FALSE>>,
        <<FALSE, FALSE, TRUE, FALSE, FALSE, FALSE, TRUE>>,
        <<FALSE, FALSE, FALSE, TRUE, FALSE, TRUE, FALSE>>>>      \* FAILED_DIRECTIONS

\* _getBaseCellDirection: the direction (0..6) in which base cell b lies from base cell a, 7 if they are not neighbours
BaseDir(a, b) == LET S == {d \in 0..6 : BCN[a + 1][d + 1] = b} IN IF S = {} THEN 7 ELSE CHOOSE d \in S : \A e \in S : d <= e

RECURSIVE RotAllCwN(_, _)
RotAllCwN(ds, n) == IF n = 0 THEN ds ELSE RotAllCwN(RotAllCw(ds), n - 1)
RECURSIVE RotDirCwN(_, _)
RotDirCwN(d, n) == IF n = 0 THEN d ELSE RotDirCwN(R60cw(d), n - 1)
\* the reverse direction is rotated with the index; on a pentagon the deleted K axis is skipped
RECURSIVE RevRotPentN(_, _)
RevRotPentN(d, n) == IF n = 0 THEN d ELSE LET e == R60cw(d) IN RevRotPentN(IF e = 1 THEN R60cw(e) ELSE e, n - 1)
\* _h3RotatePent60cw, loop for loop
RECURSIVE RotPentCwFrom(_, _, _)
RotPentCwFrom(ds, r, found) ==
  IF r > Len(ds) THEN ds
  ELSE LET ds1 == [ds EXCEPT ![r] = R60cw(ds[r])]
       IN IF ~found /\ ds1[r] # 0
          THEN RotPentCwFrom(IF Lead(ds1) = 1 THEN RotAllCw(ds1) ELSE ds1, r + 1, TRUE)
          ELSE RotPentCwFrom(ds1, r + 1, found)
RECURSIVE RotPentCwN(_, _)
RotPentCwN(ds, n) == IF n = 0 THEN ds ELSE RotPentCwN(RotPentCwFrom(ds, 1, FALSE), n - 1)
RECURSIVE Rot60cwN(_, _)
Rot60cwN(c, n) == IF n = 0 THEN c ELSE Rot60cwN(Rot60cw(c), n - 1)
\* the unit offset towards a neighbouring base cell, scaled down to resolution res
RECURSIVE ScaleDown(_, _)
ScaleDown(c, r) == IF r = 0 THEN c ELSE ScaleDown(IF ClassIII(r) THEN DownAp7(c) ELSE DownAp7r(c), r - 1)     \* levels res, res-1, .., 1 as in the code

\* ---- cellToLocalIjk(origin o, index h): <<"ok", ijk>> | <<"fail">> (E_FAILED) | <<"invalid">> (E_CELL_INVALID) | <<"mismatch">>
CellToLocalIjk(o, h) ==
  IF o.r # h.r THEN <<"mismatch">>
  ELSE
  LET ob == o.b   hb == h.b
      dir == IF ob = hb THEN 0 ELSE BaseDir(ob, hb)
  IN IF dir = 7 THEN <<"fail">>
     ELSE
     LET oP == IsPentBC(ob)   hP == IsPentBC(hb)
         revDir0 == IF ob = hb THEN 0 ELSE BaseDir(hb, ob)
         rots == IF dir # 0 THEN BCR[ob + 1][dir + 1] ELSE 0
         hd == IF dir = 0 THEN h.d ELSE IF hP THEN RotPentCwN(h.d, rots) ELSE RotAllCwN(h.d, rots)
         revDir == IF dir = 0 THEN revDir0 ELSE IF hP THEN RevRotPentN(revDir0, rots) ELSE RotDirCwN(revDir0, rots)
         c0 == DigitsDown(<<0, 0, 0>>, hd, 1)
         oLead == Lead(o.d)   hLead == Lead(hd)
     IN IF dir # 0
        THEN LET failed == IF oP THEN FAILED[oLead + 1][dir + 1] ELSE IF hP THEN FAILED[hLead + 1][revDir + 1] ELSE FALSE
                 dirRot == IF oP THEN PR[oLead + 1][dir + 1] ELSE 0
                 pentRot == IF oP THEN dirRot ELSE IF hP THEN PR[revDir + 1][hLead + 1] ELSE 0
             IN IF failed THEN <<"fail">>
                ELSE IF pentRot < 0 \/ dirRot < 0 THEN <<"invalid">>
                ELSE LET c1 == Rot60cwN(c0, pentRot)
                         off == Rot60cwN(ScaleDown(NeighborIjk(<<0, 0, 0>>, dir), o.r), dirRot)
                     IN <<"ok", Norm(Add(c1, off))>>
        ELSE IF oP /\ hP
             THEN IF FAILED[oLead + 1][hLead + 1] THEN <<"fail">>
                  ELSE IF PR[oLead + 1][hLead + 1] < 0 THEN <<"invalid">>
                  ELSE <<"ok", Rot60cwN(c0, PR[oLead + 1][hLead + 1])>>
             ELSE <<"ok", c0>>

\* ---- localIjkToCell(origin o, ijk): <<"ok", cell>> | <<"fail">> | <<"pent">> (E_PENTAGON) | <<"invalid">>
LocalIjkToCell(o, ijk) ==
  LET ob == o.b   oP == IsPentBC(ob)   res == o.r IN
  IF res = 0
  THEN LET d0 == UnitToDigit(ijk) IN
       IF d0 = 7 THEN <<"fail">> ELSE LET nb == BCN[ob + 1][d0 + 1] IN IF nb = 127 THEN <<"fail">> ELSE <<"ok", [r |-> 0, b |-> nb, d |-> <<>>]>>
  ELSE
  LET u == DigitsUp(ijk, res, <<>>)   cb == u[1]   ds == u[2] IN
  IF cb[1] > 1 \/ cb[2] > 1 \/ cb[3] > 1 THEN <<"fail">>
  ELSE
  LET dir0 == UnitToDigit(cb)
      bc0 == BCN[ob + 1][dir0 + 1]
      hP == bc0 # 127 /\ IsPentBC(bc0)
      oLead == Lead(o.d)
  IN IF dir0 # 0
     THEN LET pentRot == IF oP THEN PRR[oLead + 1][dir0 + 1] ELSE 0
              dir == IF oP THEN RotDirCcw(dir0, IF pentRot < 0 THEN 0 ELSE pentRot) ELSE dir0
          IN IF oP /\ dir = 1 THEN <<"pent">>
             ELSE LET bc == IF oP THEN BCN[ob + 1][dir + 1] ELSE bc0
                      bcRots == BCR[ob + 1][dir + 1]
                  IN IF hP
                     THEN LET revDir == BaseDir(bc, ob)
                              d1 == RotAllCcwN(ds, bcRots)
                              hLead == Lead(d1)
                              pr2 == IF Polar(bc) THEN PRRP[revDir + 1][hLead + 1] ELSE PRRN[revDir + 1][hLead + 1]
                          IN IF pr2 < 0 THEN <<"invalid">>
                             ELSE LET d2 == RotPentCcwN(d1, pr2) IN
                                  IF Lead(d2) = 1 THEN <<"pent">> ELSE <<"ok", [r |-> res, b |-> bc, d |-> d2]>>
                     ELSE IF pentRot < 0 THEN <<"invalid">>
                          ELSE <<"ok", [r |-> res, b |-> bc, d |-> RotAllCcwN(RotAllCcwN(ds, pentRot), bcRots)]>>
     ELSE IF oP /\ hP
          THEN LET wr == PRR[oLead + 1][Lead(ds) + 1] IN
               IF wr < 0 THEN <<"invalid">>
               ELSE LET d2 == RotAllCcwN(ds, wr) IN IF Lead(d2) = 1 THEN <<"pent">> ELSE <<"ok", [r |-> res, b |-> ob, d |-> d2]>>
          ELSE IF hP /\ Lead(ds) = 1 THEN <<"pent">> ELSE <<"ok", [r |-> res, b |-> ob, d |-> ds]>>

\* ijkDistance
AbsI(x) == IF x < 0 THEN -x ELSE x
Max3(a, b, c) == IF a >= b THEN (IF a >= c THEN a ELSE c) ELSE (IF b >= c THEN b ELSE c)
IjkDistance(a, b) == LET d == Norm(Sub(a, b)) IN Max3(AbsI(d[1]), AbsI(d[2]), AbsI(d[3]))
\* gridDistance(a, b): -1 when an unfolding fails
GridDistance(a, b) == LET x == CellToLocalIjk(a, a)   y == CellToLocalIjk(a, b) IN
                      IF x[1] = "ok" /\ y[1] = "ok" THEN IjkDistance(x[2], y[2]) ELSE -1
=============================================================================
