------------------------------- MODULE MC_PolyIter -------------------------------
EXTENDS H3PolyIter
PentHex == <<TRUE, FALSE>>            \* a pentagon base cell followed by a hexagon base cell
HexPentHex == <<FALSE, TRUE, FALSE>>
=============================================================================
