SPECIFICATION Spec
CONSTANTS R = 3  K = 3
INVARIANT LocalIJClaims
CHECK_DEADLOCK FALSE
