CONSTANT H = 6
SPECIFICATION Spec
INVARIANT PointOK
INVARIANT OverlapOK
INVARIANT ContainsOK
CHECK_DEADLOCK FALSE
