----------------------------- MODULE MC_GridUnsafe -----------------------------
(* Every cell of resolution R as origin of both unsafe walks, k = 1..K (the grid itself is explored as in MC_Grid). *)
EXTENDS H3GridUnsafe, TLC
CONSTANTS R, K
VARIABLE c
Init == c = [r |-> R, b |-> 0, d |-> SubSeq(<<0,0,0,0,0,0,0,0,0,0,0,0,0,0,0>>, 1, R)]
Next == \E dd \in Dirs : NbrOk(c, dd) /\ c' = NbrCell(c, dd)
Spec == Init /\ [][Next]_c
UnsafeClaims == \A k \in 1..K : DiskClaim(c, k) /\ RingClaim(c, k)
\* how often the walks succeed (so that the claim is not vacuous): counted by the check from these prints
EmitOutcome == PrintT(<<"OUTCOME", UnsafeDisk(c, K)[1], UnsafeRing(c, K)[1]>>)
=============================================================================
