SPECIFICATION Spec
CONSTANT R = 0
INVARIANT GridInv
CHECK_DEADLOCK FALSE
