CONSTANT M = 18
CONSTANT WHICH = "REF"
SPECIFICATION Spec
POSTCONDITION Accepted
CHECK_DEADLOCK FALSE
