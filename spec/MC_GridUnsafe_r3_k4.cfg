SPECIFICATION Spec
CONSTANTS R = 3  K = 4
INVARIANT UnsafeClaims
CHECK_DEADLOCK FALSE
