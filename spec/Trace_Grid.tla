------------------------------ MODULE Trace_Grid ------------------------------
(* Trace specification for the grid-traversal functions (C05; C09, C10, C11, C14 events are added in
   the sections below).  Every recorded call must be explained by the reference graph of H3Grid:
   N = neighbour set, Disk/Ring/Dist = breadth-first search. *)
EXTENDS H3Grid, TraceBase, FiniteSets

VARIABLE l
E_SUCCESS == 0   E_DOMAIN == 2   E_NOT_NEIGHBORS == 11   E_RES_MISMATCH == 12

NonZero(o) == {i \in 1..Len(o) : ~IsNull(o[i])}
NzSet(o) == {o[i] : i \in NonZero(o)}
NoDupNz(o) == Cardinality(NzSet(o)) = Cardinality(NonZero(o))

\* ---- C05 ------------------------------------------------------------------------------------
\* safe family: gridDisk, gridDiskDistances, gridDiskDistancesSafe (e.f names the function;
\* e.d = distances array or <<>> when the function has none)
DiskSafeOK(e) ==
  LET c == CellOf(e.h)   L == Layers(c, e.k)   D == UNION {L[i] : i \in 1..Len(L)} IN
  /\ e.r = E_SUCCESS /\ e.guard = 1
  /\ Len(e.o) = MaxDiskSize(e.k)                      \* the documented buffer size
  /\ NoDupNz(e.o)
  /\ NzSet(e.o) = WordsOf(D)
  /\ (e.d # <<>> => \A i \in NonZero(e.o) : e.d[i] = DistIn(L, CellOf(e.o[i])))

\* unsafe family: gridDiskUnsafe, gridDiskDistancesUnsafe: error, or the disk in ring order
RingSlice(o, j) == IF j = 0 THEN {o[1]} ELSE {o[i] : i \in (3 * j * (j - 1) + 2)..(3 * j * (j + 1) + 1)}
DiskInRingOrder(o, d, c, k) ==
  LET L == Layers(c, k) IN
  /\ \A j \in 0..k : RingSlice(o, j) = WordsOf(L[j + 1])
  /\ Cardinality({o[i] : i \in 1..MaxDiskSize(k)}) = MaxDiskSize(k)
  /\ (d # <<>> => \A j \in 1..k : \A i \in (3 * j * (j - 1) + 2)..(3 * j * (j + 1) + 1) : d[i] = j)
  /\ (d # <<>> => d[1] = 0)
DiskUnsafeOK(e) ==
  /\ e.guard = 1
  /\ (e.k < 0 => e.r = E_DOMAIN)
  /\ (e.r = E_SUCCESS => /\ Len(e.o) = MaxDiskSize(e.k)
                         /\ DiskInRingOrder(e.o, e.d, CellOf(e.h), e.k))

RingUnsafeOK(e) ==
  /\ e.guard = 1
  /\ (e.r = E_SUCCESS /\ e.k >= 0 =>
        LET n == IF e.k = 0 THEN 1 ELSE 6 * e.k
            R == Ring(CellOf(e.h), e.k) IN
        /\ {e.o[i] : i \in 1..n} = WordsOf(R)
        /\ Cardinality(R) = n)

DisksUnsafeOK(e) ==      \* gridDisksUnsafe on a list of origins: error, or every segment is a ring-ordered disk
  /\ e.guard = 1
  /\ (e.r = E_SUCCESS =>
        LET sz == MaxDiskSize(e.k) IN
        /\ Len(e.o) = sz * Len(e.hs)
        /\ \A s \in 1..Len(e.hs) :
             DiskInRingOrder(SubSeq(e.o, (s - 1) * sz + 1, s * sz), <<>>, CellOf(e.hs[s]), e.k))

AreNeighborsOK(e) ==     \* recorded for valid cells of equal resolution
  /\ e.r = E_SUCCESS
  /\ (e.o = 1) = (CellOf(e.b) \in N(CellOf(e.a)))
  /\ e.o \in {0, 1}

NeighborsK1OK(e) ==      \* gridDisk(k=1): exactly 6 (5) distinct valid same-resolution neighbours, symmetric
  LET c == CellOf(e.h)   ns == NzSet(e.o) \ {e.h} IN
  /\ e.r = E_SUCCESS
  /\ Cardinality(ns) = (IF IsPentC(c) THEN 5 ELSE 6)
  /\ \A w \in ns : ValidCell(w) /\ Res(w) = c.r /\ c \in N(CellOf(w))
  /\ ns = WordsOf(N(c))

MaxDiskSizeOK(e) ==
  IF e.k < 0 THEN e.r = E_DOMAIN ELSE e.r = E_SUCCESS /\ e.n = MaxDiskSize(e.k)     \* small k only

EvOK(e) ==
  /\ (Has(e, "h") => ValidCell(e.h))
  /\ CASE e.e = "diskSafe"      -> DiskSafeOK(e)
       [] e.e = "diskUnsafe"    -> DiskUnsafeOK(e)
       [] e.e = "ringUnsafe"    -> RingUnsafeOK(e)
       [] e.e = "disksUnsafe"   -> DisksUnsafeOK(e)
       [] e.e = "areNeighbors"  -> AreNeighborsOK(e)
       [] e.e = "neighborsK1"   -> NeighborsK1OK(e)
       [] e.e = "maxGridDiskSize" -> MaxDiskSizeOK(e)
       [] OTHER -> FALSE
Init == l = 1
Next == l <= Len(Tr) /\ IF EvOK(Tr[l]) THEN l' = l + 1 ELSE FALSE
Spec == Init /\ [][Next]_l
=============================================================================
