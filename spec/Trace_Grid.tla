------------------------------ MODULE Trace_Grid ------------------------------
(* Trace specification for the grid-traversal functions (C05; C09, C10, C11, C14 events are added in
   the sections below).  Every recorded call must be explained by the reference graph of H3Grid:
   N = neighbour set, Disk/Ring/Dist = breadth-first search. *)
EXTENDS H3Grid, TraceBase, FiniteSets

VARIABLE l
E_SUCCESS == 0   E_DOMAIN == 2   E_NOT_NEIGHBORS == 11   E_RES_MISMATCH == 12

NonZero(o) == {i \in 1..Len(o) : ~IsNull(o[i])}
NzSet(o) == {o[i] : i \in NonZero(o)}
NoDupNz(o) == Cardinality(NzSet(o)) = Cardinality(NonZero(o))

\* ---- C05 ------------------------------------------------------------------------------------
\* safe family: gridDisk, gridDiskDistances, gridDiskDistancesSafe (e.f names the function;
\* e.d = distances array or <<>> when the function has none)
DiskSafeOK(e) ==
  LET c == CellOf(e.h)   L == Layers(c, e.k)   D == UNION {L[i] : i \in 1..Len(L)} IN
  /\ e.r = E_SUCCESS /\ e.guard = 1
  /\ Len(e.o) = MaxDiskSize(e.k)                      \* the documented buffer size
  /\ NoDupNz(e.o)
  /\ NzSet(e.o) = WordsOf(D)
  /\ (e.d # <<>> => \A i \in NonZero(e.o) : e.d[i] = DistIn(L, CellOf(e.o[i])))

\* unsafe family: gridDiskUnsafe, gridDiskDistancesUnsafe: error, or the disk in ring order
RingSlice(o, j) == IF j = 0 THEN {o[1]} ELSE {o[i] : i \in (3 * j * (j - 1) + 2)..(3 * j * (j + 1) + 1)}
DiskInRingOrder(o, d, c, k) ==
  LET L == Layers(c, k) IN
  /\ \A j \in 0..k : RingSlice(o, j) = WordsOf(L[j + 1])
  /\ Cardinality({o[i] : i \in 1..MaxDiskSize(k)}) = MaxDiskSize(k)
  /\ (d # <<>> => \A j \in 1..k : \A i \in (3 * j * (j - 1) + 2)..(3 * j * (j + 1) + 1) : d[i] = j)
  /\ (d # <<>> => d[1] = 0)
DiskUnsafeOK(e) ==
  /\ e.guard = 1
  /\ (e.k < 0 => e.r = E_DOMAIN)
  /\ (e.r = E_SUCCESS => /\ Len(e.o) = MaxDiskSize(e.k)
                         /\ DiskInRingOrder(e.o, e.d, CellOf(e.h), e.k))

RingUnsafeOK(e) ==
  /\ e.guard = 1
  /\ (e.r = E_SUCCESS /\ e.k >= 0 =>
        LET n == IF e.k = 0 THEN 1 ELSE 6 * e.k
            R == Ring(CellOf(e.h), e.k) IN
        /\ {e.o[i] : i \in 1..n} = WordsOf(R)
        /\ Cardinality(R) = n)

DisksUnsafeOK(e) ==      \* gridDisksUnsafe on a list of origins: error, or every segment is a ring-ordered disk
  /\ e.guard = 1
  /\ (e.r = E_SUCCESS =>
        LET sz == MaxDiskSize(e.k) IN
        /\ Len(e.o) = sz * Len(e.hs)
        /\ \A s \in 1..Len(e.hs) :
             DiskInRingOrder(SubSeq(e.o, (s - 1) * sz + 1, s * sz), <<>>, CellOf(e.hs[s]), e.k))

AreNeighborsOK(e) ==     \* recorded for valid cells of equal resolution
  /\ e.r = E_SUCCESS
  /\ (e.o = 1) = (CellOf(e.b) \in N(CellOf(e.a)))
  /\ e.o \in {0, 1}

NeighborsK1OK(e) ==      \* gridDisk(k=1): exactly 6 (5) distinct valid same-resolution neighbours, symmetric
  LET c == CellOf(e.h)   ns == NzSet(e.o) \ {e.h} IN
  /\ e.r = E_SUCCESS
  /\ Cardinality(ns) = (IF IsPentC(c) THEN 5 ELSE 6)
  /\ \A w \in ns : ValidCell(w) /\ Res(w) = c.r /\ c \in N(CellOf(w))
  /\ ns = WordsOf(N(c))

MaxDiskSizeOK(e) ==
  IF e.k < 0 THEN e.r = E_DOMAIN ELSE e.r = E_SUCCESS /\ e.n = MaxDiskSize(e.k)     \* small k only

\* ---- C10: directed edges -------------------------------------------------------------------
OriginOf(x) == <<High(x) * 262144 + 16384 + (x[1] % 2048), x[2], x[3], x[4]>>      \* mode := 1, reserved := 0
EdgeValidW(x) ==
  /\ Mode(x) = 2 /\ Rsv(x) \in 1..6
  /\ ValidCell(OriginOf(x))
  /\ ~(IsPentC(CellOf(OriginOf(x))) /\ Rsv(x) = 1)
Untouched(w) == w = <<349525, 10922, 21845, 10922>>

\* originToDirectedEdges(h) with, per slot, what the decode functions and cellsToDirectedEdge returned
\*   e.es[i] edge ; e.ed[i] = [v |-> isValidDirectedEdge, ro, o |-> origin, rd, d |-> destination,
\*                             rc, c1, c2 |-> directedEdgeToCells, rce, ce |-> cellsToDirectedEdge(h, d)]
EdgeNbhdOK(e) ==
  LET c == CellOf(e.h)   Nc == WordsOf(N(c))
      live == {i \in 1..6 : ~IsNull(e.es[i])} IN
  /\ e.r = E_SUCCESS
  /\ live = (IF IsPentC(c) THEN 2..6 ELSE 1..6)
  /\ \A i \in live :
       LET x == e.es[i]   q == e.ed[i] IN
       /\ Mode(x) = 2 /\ OriginOf(x) = e.h /\ EdgeValidW(x) /\ q.v = 1
       /\ q.ro = 0 /\ q.o = e.h
       /\ q.rd = 0 /\ q.d \in Nc
       /\ q.rc = 0 /\ q.c1 = e.h /\ q.c2 = q.d
       /\ q.rce = 0 /\ q.ce = x                            \* encoding the pair gives this very edge back
  /\ {e.ed[i].d : i \in live} = Nc                         \* exactly the neighbours, once each
  /\ Cardinality({e.es[i] : i \in live}) = Cardinality(Nc)

CellsToEdgeOK(e) ==     \* arbitrary pairs of valid cells
  IF ValidCell(e.a) /\ ValidCell(e.b) /\ Res(e.a) = Res(e.b) /\ CellOf(e.b) \in N(CellOf(e.a))
  THEN e.r = E_SUCCESS /\ Mode(e.o) = 2 /\ OriginOf(e.o) = e.a /\ EdgeValidW(e.o)
  ELSE e.r = E_NOT_NEIGHBORS /\ Untouched(e.o)

IsValidEdgeOK(e) == (e.o = 1) = EdgeValidW(e.x) /\ e.o \in {0, 1}

\* ---- C11: vertexes ------------------------------------------------------------------------------
VSet(vs) == {vs[i] : i \in {j \in 1..Len(vs) : ~IsNull(vs[j])}}
MinWord(S) == CHOOSE w \in S : \A v \in S : WordLeq(w, v)
\* cellToVertexes of a cell and of each of its neighbours; cellToVertex for numbers -2..8
VertexNbhdOK(e) ==
  LET c == CellOf(e.h)   Nc == WordsOf(N(c))
      nv == IF IsPentC(c) THEN 5 ELSE 6
      V == VSet(e.vs)
      NbV == [b \in {e.nb[i].b : i \in 1..Len(e.nb)} |-> VSet((CHOOSE q \in Range(e.nb) : q.b = b).vs)]
      Tri == {t \in SUBSET Nc : Cardinality(t) = 2 /\ \E x \in t : \E y \in t : x # y /\ CellOf(y) \in N(CellOf(x))}
      Common(t) == V \cap (NbV[CHOOSE x \in t : TRUE]) \cap (NbV[CHOOSE y \in t : y # (CHOOSE x \in t : TRUE)])
  IN
  /\ e.r = E_SUCCESS
  /\ DOMAIN NbV = Nc                                                    \* the driver listed exactly the neighbours
  /\ \A i \in 1..6 : IsNull(e.vs[i]) = (i > nv)                         \* five plus one null slot for a pentagon
  /\ Cardinality(V) = nv
  /\ \A v \in V : /\ Mode(v) = 4 /\ High(v) = 0 /\ ValidCell(OriginOf(v))
                  /\ Rsv(v) < (IF IsPentC(CellOf(OriginOf(v))) THEN 5 ELSE 6)
  \* corners = triangles of the neighbour graph; one index per corner, shared by its three cells, owned by the lowest
  /\ Cardinality(Tri) = nv
  /\ \A t \in Tri : /\ Cardinality(Common(t)) = 1
                    /\ OriginOf(CHOOSE v \in Common(t) : TRUE) = MinWord(t \cup {e.h})
  /\ Cardinality(UNION {Common(t) : t \in Tri}) = nv                    \* every corner of the cell is one of them
  /\ \A b \in Nc : Cardinality(V \cap NbV[b]) = 2                       \* neighbours share exactly two
  /\ \A b1 \in Nc : \A b2 \in Nc : (b1 # b2 /\ CellOf(b2) \notin N(CellOf(b1))) => Cardinality(NbV[b1] \cap NbV[b2]) < 2
  \* cellToVertex(cell, i) agrees with slot i; out-of-range numbers give E_DOMAIN
  /\ \A k \in 1..Len(e.cv) :
       LET q == e.cv[k] IN
       IF q.i \in 0..(nv - 1) THEN q.r = E_SUCCESS /\ q.o = e.vs[q.i + 1]
       ELSE q.r = E_DOMAIN /\ Untouched(q.o)

\* isValidVertex(x); e.ov = cellToVertexes(owner of x) when that owner is a valid cell, else <<>>
IsValidVertexOK(e) ==
  (e.o = 1) = (Mode(e.x) = 4 /\ ValidCell(OriginOf(e.x)) /\ e.x \in VSet(e.ov))

\* ---- C09: gridDistance, local IJ ---------------------------------------------------------------
\* gridDistance(a,b) and gridDistance(b,a) for valid cells of equal resolution
DistOK(e) ==
  LET ca == CellOf(e.a)   cb == CellOf(e.b) IN
  /\ (e.r = E_SUCCESS => e.d >= 0 /\ Dist(ca, cb, e.d) = e.d)          \* BFS to radius d finds b at exactly d
  /\ (e.r = E_SUCCESS /\ e.rr = E_SUCCESS => e.d = e.dr)
  /\ (e.a = e.b => e.r = E_SUCCESS /\ e.d = 0)
  /\ (cb \in N(ca) => e.r = E_SUCCESS /\ e.d = 1)
DistMismatchOK(e) == Res(e.a) # Res(e.b) /\ e.r = E_RES_MISMATCH

\* all targets from one origin (complete coarse resolutions): e.t[i] = [b, r, d]
RECURSIVE AllLayersFrom(_, _, _)
AllLayersFrom(acc, seen, frontier) ==
  LET nxt == (UNION {N(c) : c \in frontier}) \ seen
  IN IF nxt = {} THEN acc ELSE AllLayersFrom(Append(acc, nxt), seen \cup nxt, nxt)
DistAllOK(e) ==
  LET ca == CellOf(e.a)   L == AllLayersFrom(<<{ca}>>, {ca}, {ca}) IN
  \A i \in 1..Len(e.t) :
     LET q == e.t[i] IN
     /\ ValidCell(q.b)
     /\ (q.r = E_SUCCESS => q.d = DistIn(L, CellOf(q.b)))
     /\ (q.b = e.a => q.r = E_SUCCESS /\ q.d = 0)
     /\ (CellOf(q.b) \in L[2] => q.r = E_SUCCESS /\ q.d = 1)

\* many (far) targets from one origin, all within e.k steps: one BFS to radius k
DistFarOK(e) ==
  LET ca == CellOf(e.a)   L == Layers(ca, e.k) IN
  \A i \in 1..Len(e.t) :
     LET q == e.t[i]   dd == DistIn(L, CellOf(q.b)) IN
     /\ ValidCell(q.b) /\ dd <= e.k
     /\ (q.r = E_SUCCESS => q.d = dd)
     /\ (q.r = E_SUCCESS /\ q.rr = E_SUCCESS => q.d = q.dr)

\* cellToLocalIj(o, h) then localIjToCell(o, that)
LocalIjOK(e) == (e.r = E_SUCCESS /\ e.rb = E_SUCCESS) => e.back = e.h
\* localIjToCell(o, (i,j)) then cellToLocalIj(o, that)
IjToCellOK(e) ==
  /\ (e.r = E_SUCCESS => ValidCell(e.c) /\ Res(e.c) = Res(e.o))
  /\ (e.r = E_SUCCESS /\ e.r2 = E_SUCCESS => e.i2 = e.i /\ e.j2 = e.j)
UnitSteps == {<<1, 0>>, <<-1, 0>>, <<0, 1>>, <<0, -1>>, <<1, 1>>, <<-1, -1>>}
IjNbhdOK(e) ==
  LET D == Disk(CellOf(e.o), e.k) IN
  (\A x \in D : ~IsPentC(x)) =>
     \A p \in 1..Len(e.cs) : \A q \in 1..Len(e.cs) :
        LET x == e.cs[p]   y == e.cs[q] IN
        (x.r = E_SUCCESS /\ y.r = E_SUCCESS /\ CellOf(y.h) \in N(CellOf(x.h)))
           => <<y.i - x.i, y.j - x.j>> \in UnitSteps

\* ---- C14: gridPathCells --------------------------------------------------------------------------
\* e.o has e.n + e.pad entries; the driver pre-filled them with the sentinel
PathOK(e) ==
  LET ca == CellOf(e.a)   cb == CellOf(e.b) IN
  /\ e.guard = 1
  /\ (e.rs = E_SUCCESS => e.rd = E_SUCCESS /\ e.n = e.d + 1)
  /\ (e.r = E_SUCCESS =>
        /\ e.rs = E_SUCCESS
        /\ e.o[1] = e.a /\ e.o[e.n] = e.b
        /\ \A i \in 1..e.n : ValidCell(e.o[i]) /\ Res(e.o[i]) = Res(e.a)
        /\ \A i \in 1..(e.n - 1) : CellOf(e.o[i + 1]) \in N(CellOf(e.o[i])))
  /\ \A i \in (e.n + 1)..(e.n + e.pad) : Untouched(e.o[i])              \* nothing beyond the announced size
  /\ (e.a = e.b \/ cb \in N(ca) => e.rs = E_SUCCESS /\ e.r = E_SUCCESS)

EvOK(e) ==
  /\ (Has(e, "h") => ValidCell(e.h))
  /\ CASE e.e = "diskSafe"      -> DiskSafeOK(e)
       [] e.e = "diskUnsafe"    -> DiskUnsafeOK(e)
       [] e.e = "ringUnsafe"    -> RingUnsafeOK(e)
       [] e.e = "disksUnsafe"   -> DisksUnsafeOK(e)
       [] e.e = "areNeighbors"  -> AreNeighborsOK(e)
       [] e.e = "neighborsK1"   -> NeighborsK1OK(e)
       [] e.e = "maxGridDiskSize" -> MaxDiskSizeOK(e)
       [] e.e = "edgeNbhd"      -> EdgeNbhdOK(e)
       [] e.e = "cellsToEdge"   -> CellsToEdgeOK(e)
       [] e.e = "isValidEdge"   -> IsValidEdgeOK(e)
       [] e.e = "vertexNbhd"    -> VertexNbhdOK(e)
       [] e.e = "isValidVertex" -> IsValidVertexOK(e)
       [] e.e = "dist"          -> DistOK(e)
       [] e.e = "distMismatch"  -> DistMismatchOK(e)
       [] e.e = "distAll"       -> DistAllOK(e)
       [] e.e = "distFar"       -> DistFarOK(e)
       [] e.e = "localIj"       -> LocalIjOK(e)
       [] e.e = "ijToCell"      -> IjToCellOK(e)
       [] e.e = "ijNbhd"        -> IjNbhdOK(e)
       [] e.e = "path"          -> PathOK(e)
       [] OTHER -> FALSE
Init == l = 1
Next == l <= Len(Tr) /\ IF EvOK(Tr[l]) THEN l' = l + 1 ELSE FALSE
Spec == Init /\ [][Next]_l
=============================================================================
