----------------------------- MODULE Trace_LoopNorm -----------------------------
(* Binds H3LoopNorm to the code: the model's rectangle loops are built as GeoLoop and as LinkedGeoLoop, and the real
   bboxFrom*, pointInside*, isClockwise* are called on them (drv_loopnorm).
     WHICH = "IMPL": the code must do what the transcription does (bounding box, every point, both windings): drift.
     WHICH = "REF" : the answers must be the reference semantics'.  Loops across both meridians (bm = 1) fail here: the
                     open C16 finding, matched in known_findings.json on e = loopNorm, bm = 1. *)
EXTENDS TraceBase, H3LoopNorm
CONSTANT WHICH
VARIABLE l
vars == <<l>>
Ev == Tr[l]
Pts == {p \in (1 - M)..(M - 1) : p % 2 # 0}
ImplOK(e) ==
  LET s == Ccw(e.w0, e.W)  b == BBoxFrom(s) IN
  /\ e.bw = b.w /\ e.be = b.e
  /\ \A p \in Pts : (e.inside[(p + M + 1) \div 2] = 1) = InsideImpl(s, p)
  /\ (e.cw = 1) = IsClockwiseImpl(s) /\ (e.cwrev = 1) = IsClockwiseImpl(Rev(s))
RefOK(e) ==
  /\ \A p \in Pts : (e.inside[(p + M + 1) \div 2] = 1) = InsideRef(e.w0, e.W, p)
  /\ e.cw = 0 /\ e.cwrev = 1
  /\ e.bm = (IF Sane(e.w0, e.W) THEN 0 ELSE 1)                       \* the harness' own classification is the model's
Init == l = 1
Next == l <= Len(Tr) /\ (\/ Ev.e = "loopNorm" /\ (IF (IF WHICH = "IMPL" THEN ImplOK(Ev) ELSE RefOK(Ev)) THEN TRUE ELSE FALSE)
                         \/ Ev.e = "loopNormAbsent") /\ l' = l + 1
Spec == Init /\ [][Next]_vars
=============================================================================
