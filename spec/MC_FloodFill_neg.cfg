CONSTANTS Origin = 4  MaxIn = 2  MaxTr = 1
SPECIFICATION Spec
INVARIANT MissesCells
