CONSTANTS CB <- TwoCells  NB = 3  HMax = 1  Lookup = "own"
SPECIFICATION Spec
INVARIANT OutlineExact
CHECK_DEADLOCK FALSE
