CONSTANTS Origin = 4  MaxIn = 4  MaxTr = 2
SPECIFICATION Spec
INVARIANT Sound
INVARIANT Exact
INVARIANT ExactUnderPrecondition
INVARIANT Bounded
PROPERTY Terminates
