----------------------------- MODULE H3Hierarchy -----------------------------
(* Reference semantics of the cell hierarchy: parent, children, centre child, child counts,
   child positions.  Everything is defined on digit strings; none of it follows the code's
   loops (the code's iterator is H3ChildIter, its position arithmetic is checked against
   Rank/Unrank below by TLC and by trace validation). *)
EXTENDS H3Index, BigNat

Zeros(n) == SubSeq(<<0,0,0,0,0,0,0,0,0,0,0,0,0,0,0>>, 1, n)
AllZero(ds) == \A i \in 1..Len(ds) : ds[i] = 0
Prefix(ds, n) == SubSeq(ds, 1, n)

\* ---- parent / centre child / children ---------------------------------------------------
ParentC(c, pr) == [r |-> pr, b |-> c.b, d |-> Prefix(c.d, pr)]                 \* pr <= c.r
CenterChildC(c, cr) == [r |-> cr, b |-> c.b, d |-> c.d \o Zeros(cr - c.r)]       \* cr >= c.r
IsDescendant(x, c) == x.r >= c.r /\ x.b = c.b /\ Prefix(x.d, c.r) = c.d
\* all children, as a set of cells (only for small n)
RECURSIVE DigitStrings(_)
DigitStrings(n) == IF n = 0 THEN {<<>>} ELSE {s \o <<d>> : s \in DigitStrings(n - 1), d \in 0..6}
ChildrenC(c, cr) == {x \in {[r |-> cr, b |-> c.b, d |-> c.d \o s] : s \in DigitStrings(cr - c.r)} : ValidC(x)}

\* ---- counts (closed forms, BigNat) ------------------------------------------------------
\* number of valid digit strings of length n below a cell on a pentagon centre chain:
\*   PW(0) = 1,  PW(n+1) = PW(n) + 5 * 7^n   (centre child stays a pentagon; digit 1 is deleted)
RECURSIVE PentWidth(_)
PentWidth(n) == IF n = 0 THEN BOne ELSE BAdd(PentWidth(n - 1), BMulS(BPow7(n - 1), 5))
ChildCount(c, n) == IF IsPentC(c) THEN PentWidth(n) ELSE BPow7(n)
\* cells per resolution: 110 hexagon + 12 pentagon base cells
NumCells(r) == BAdd(BMulS(BPow7(r), 110), BMulS(PentWidth(r), 12))
NumCellsClosed(r) == BAdd(BOfSmall(2), BMulS(BPow7(r), 120))                    \* 2 + 120*7^r

\* ---- position of a child among the children of its ancestor, in index order -------------
\* Rank(c, s): number of valid extensions of c that are lexicographically below extension s
\* (digit strings compare like index words).  Digit-DP: walk s; while the prefix read so far is
\* all zero below a pentagon cell, digit 1 is deleted.
RECURSIVE RankFrom(_, _, _, _)
RankFrom(s, i, onChain, n) ==      \* contribution of positions i..n ; onChain: still on the pentagon chain
  IF i > n THEN BZero
  ELSE LET d == s[i]   m == n - i       \* m digits remain after position i
           below == IF ~onChain THEN BMulS(BPow7(m), d)
                    ELSE IF d = 0 THEN BZero
                    ELSE \* smaller valid digits: 0 (a pentagon sub-tree) and 2..d-1 (hexagon sub-trees)
                         BAdd(PentWidth(m), BMulS(BPow7(m), d - 2))
       IN BAdd(below, RankFrom(s, i + 1, onChain /\ d = 0, n))
Rank(c, s) == RankFrom(s, 1, IsPentC(c), Len(s))
RankOfChild(c, x) == Rank(c, SubSeq(x.d, c.r + 1, x.r))           \* x descendant of c

\* Unrank: the extension with a given rank (search by comparison only)
RECURSIVE UnrankFrom(_, _, _, _)
UnrankFrom(pos, i, onChain, n) ==
  IF i > n THEN <<>>
  ELSE LET m == n - i
           W(d) == \* rank offset of the first extension whose digit at i is d
                   IF ~onChain THEN BMulS(BPow7(m), d)
                   ELSE IF d = 0 THEN BZero ELSE BAdd(PentWidth(m), BMulS(BPow7(m), d - 2))
           Cand == IF onChain THEN {0, 2, 3, 4, 5, 6} ELSE 0..6
           d == CHOOSE e \in Cand : BLeq(W(e), pos) /\ \A f \in Cand : (f > e => BLess(pos, W(f)))
       IN <<d>> \o UnrankFrom(BSub(pos, W(d)), i + 1, onChain /\ d = 0, n)
Unrank(c, n, pos) == UnrankFrom(pos, 1, IsPentC(c), n)
=============================================================================
