------------------------------- MODULE MC_Hex2d -------------------------------
(* Exhaustive check of the rounding logic: every point of the 1/D lattice over a K x K block of hexagons in skew
   coordinates, in all four quadrants.  The state is a lattice point (the walk p+1 / q+1 only serves to let TLC's
   workers enumerate the block in parallel); the invariant is evaluated for the four sign combinations. *)
EXTENDS H3Hex2d
CONSTANTS D, K
VARIABLES p, q
vars == <<p, q>>
Init == p = 0 /\ q = 0
Next == \/ p < K * D /\ p' = p + 1 /\ q' = q
        \/ q < K * D /\ q' = q + 1 /\ p' = p
Spec == Init /\ [][Next]_vars
Signs == {s \in {1, -1} \X {1, -1} : (s[1] = -1 => 2 * p > q) /\ (s[2] = -1 => q > 0)}     \* x < 0 needs |x| > 0, y < 0 needs |y| > 0
Correct == 2 * p >= q => \A s \in Signs : RoundsToNearest(D, p, q, s[1], s[2], Impl(D, p, q, s[1], s[2]))
\* a deliberately wrong variant (first threshold 1/3 moved by two lattice steps) must be caught: MC_Hex2d_neg.cfg
BranchNeg(rp, rq) == IF 3 * rp < D + 6 /\ 2 * rp < D THEN (IF 2 * rq < D + rp THEN <<0, 0>> ELSE <<0, 1>>) ELSE Branch(D, rp, rq)
ImplNeg == LET b == BranchNeg(p % D, q % D) IN Normalize((p \div D) + b[1], (q \div D) + b[2], 0)
CorrectNeg == 2 * p >= q => RoundsToNearest(D, p, q, 1, 1, ImplNeg)
=============================================================================
