------------------------------- MODULE MC_LoopNorm -------------------------------
(* Every rectangle loop on the longitude grid and every test point.  MC_LoopNorm.cfg (Sane loops: not across both
   meridians) must hold; MC_LoopNorm_both.cfg (all loops) is expected to violate InsideOK: the open C16 finding at design
   level. *)
EXTENDS H3LoopNorm
CONSTANT OnlySane
VARIABLES w0, W
vars == <<w0, W>>
Even(S) == {x \in S : x % 2 = 0}
Init == w0 \in Even((-M)..(M - 2)) /\ W \in Even(2..(2 * M - 2)) /\ (OnlySane => Sane(w0, W))
Next == UNCHANGED vars
Spec == Init /\ [][Next]_vars
Points == {p \in (1 - M)..(M - 1) : p % 2 # 0}
InsideOK == \A p \in Points : InsideImpl(Ccw(w0, W), p) = InsideRef(w0, W, p)
WindingOK == ~IsClockwiseImpl(Ccw(w0, W)) /\ IsClockwiseImpl(Rev(Ccw(w0, W)))
BBoxOK == LET b == BBoxFrom(Ccw(w0, W)) IN \A p \in Points : InsideRef(w0, W, p) => BBoxContainsLng(b, p)
\* the violations are exactly the loops across both meridians
Exactly == (InsideOK /\ WindingOK) <=> Sane(w0, W)
=============================================================================
