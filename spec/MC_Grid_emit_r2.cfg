SPECIFICATION Spec
CONSTANT R = 2
INVARIANT GridInv
INVARIANT EmitCell
CHECK_DEADLOCK FALSE
