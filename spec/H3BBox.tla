--------------------------------- MODULE H3BBox ---------------------------------
(* Bounding boxes and their antimeridian logic (bbox.c; used by both polygon fills, C07 / C15).

   Longitudes and latitudes are integers (units of pi/H for longitudes, so -H..H is -180..180 degrees).  A box is
   [n, s, e, w]; it is transmeridian iff e < w and then covers the longitudes w..H and -H..e.

   Reference semantics: a box is the set of grid points it covers.  Implementation: bboxContains, bboxOverlapsBBox,
   bboxContainsBBox with bboxNormalization / normalizeLng, transcribed.  MC_BBox compares the two on every pair of boxes
   of a small grid. *)
EXTENDS Integers, FiniteSets
CONSTANT H
Lngs(b) == IF b.e < b.w THEN (b.w..H) \cup ((-H)..b.e) ELSE b.w..b.e
Lats(b) == b.s..b.n
Points(b) == Lats(b) \X Lngs(b)
IsTrans(b) == b.e < b.w

\* ---- reference ----
ContainsRef(b, lat, lng) == <<lat, lng>> \in Points(b)
OverlapsRef(a, b) == Points(a) \cap Points(b) # {}
ContainsBBoxRef(a, b) == Points(b) \subseteq Points(a)

\* ---- implementation (bbox.c) ----
NormLng(lng, mode) == IF mode = "east" THEN (IF lng < 0 THEN lng + 2 * H ELSE lng)
                      ELSE IF mode = "west" THEN (IF lng > 0 THEN lng - 2 * H ELSE lng)
                      ELSE lng
Normalization(a, b) ==            \* <<aNormalization, bNormalization>>
  LET aT == IsTrans(a)   bT == IsTrans(b)
      aToBTrendsEast == a.w - b.e < b.w - a.e
  IN << IF ~aT THEN "none" ELSE IF bT THEN "east" ELSE IF aToBTrendsEast THEN "east" ELSE "west",
        IF ~bT THEN "none" ELSE IF aT THEN "east" ELSE IF aToBTrendsEast THEN "west" ELSE "east" >>
ContainsImpl(b, lat, lng) ==
  lat >= b.s /\ lat <= b.n /\ (IF IsTrans(b) THEN (lng >= b.w \/ lng <= b.e) ELSE (lng >= b.w /\ lng <= b.e))
OverlapsImpl(a, b) ==
  IF a.n < b.s \/ a.s > b.n THEN FALSE
  ELSE LET nm == Normalization(a, b) IN
       ~(NormLng(a.e, nm[1]) < NormLng(b.w, nm[2]) \/ NormLng(a.w, nm[1]) > NormLng(b.e, nm[2]))
ContainsBBoxImpl(a, b) ==
  IF a.n < b.n \/ a.s > b.s THEN FALSE
  ELSE LET nm == Normalization(a, b) IN
       NormLng(a.w, nm[1]) <= NormLng(b.w, nm[2]) /\ NormLng(a.e, nm[1]) >= NormLng(b.e, nm[2])
=============================================================================
