----------------------------- MODULE MC_Hierarchy -----------------------------
(* Constant-level facts about the reference semantics, checked by TLC as ASSUMEs:
   the closed-form counts equal the sizes of the declaratively defined children sets, the count
   identity per resolution holds for all 16 resolutions, Rank is a bijection onto 0..count-1
   whose inverse is Unrank. *)
EXTENDS H3Hierarchy, TLC

Cells == { [r |-> 0, b |-> 0, d |-> <<>>], [r |-> 0, b |-> 4, d |-> <<>>], [r |-> 1, b |-> 4, d |-> <<0>>],
           [r |-> 1, b |-> 4, d |-> <<2>>], [r |-> 2, b |-> 58, d |-> <<0, 0>>], [r |-> 2, b |-> 58, d |-> <<0, 6>>],
           [r |-> 2, b |-> 33, d |-> <<1, 1>>] }
Depths == 0..2

ASSUME CountIsCardinality ==
  \A c \in Cells : \A n \in Depths :
    BOfSmall(Cardinality(ChildrenC(c, c.r + n))) = ChildCount(c, n)

ASSUME NumCellsIdentity == \A r \in 0..15 : NumCells(r) = NumCellsClosed(r)

ASSUME PentWidthClosed ==          \* 6 * PW(n) = 5 * 7^n + 1
  \A n \in 0..15 : BMulS(PentWidth(n), 6) = BAdd(BMulS(BPow7(n), 5), BOne)

ASSUME RankBijection ==
  \A c \in Cells : \A n \in Depths :
    LET Ch == ChildrenC(c, c.r + n)
        Ext(x) == SubSeq(x.d, c.r + 1, x.r)
    IN /\ \A x \in Ch : Unrank(c, n, Rank(c, Ext(x))) = Ext(x)
       /\ \A x \in Ch : BLess(Rank(c, Ext(x)), ChildCount(c, n))
       /\ \A x, y \in Ch : WordLess(WordOf(x), WordOf(y)) => BLess(Rank(c, Ext(x)), Rank(c, Ext(y)))

ASSUME PartitionSmall ==           \* children of the children = grandchildren (tree partition)
  \A c \in Cells :
    UNION {ChildrenC(x, c.r + 2) : x \in ChildrenC(c, c.r + 1)} = ChildrenC(c, c.r + 2)
    /\ \A x, y \in ChildrenC(c, c.r + 1) : x # y => ChildrenC(x, c.r + 2) \cap ChildrenC(y, c.r + 2) = {}

VARIABLE x
Init == x = 0
Next == FALSE /\ x' = x
Spec == Init /\ [][Next]_x
=============================================================================
