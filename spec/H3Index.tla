------------------------------- MODULE H3Index -------------------------------
(* The 64-bit H3 index word and the abstract cell.

   A raw word is the 4-tuple <<t, w1, w2, w3>>:
     t  = bits 63..45 (19 bits): high(1) | mode(4) | reserved(3) | resolution(4) | base cell(7)
     w1 = bits 44..30 = digits 1..5,  w2 = bits 29..15 = digits 6..10,  w3 = bits 14..0 = digits 11..15
   (TLC integers are 32-bit, so a word is never a single number.)

   An abstract cell is the record [r |-> 0..15, b |-> 0..121, d |-> <<d_1..d_r>>], digits 0..6.  *)
EXTENDS Naturals, Integers, Sequences, FiniteSets

PentagonBaseCells == {4, 14, 24, 38, 49, 58, 63, 72, 83, 97, 107, 117}
NumBaseCells == 122
MaxRes == 15

IsWord(w) == /\ Len(w) = 4 /\ w[1] \in 0..524287
             /\ w[2] \in 0..32767 /\ w[3] \in 0..32767 /\ w[4] \in 0..32767

High(w) == w[1] \div 262144
Mode(w) == (w[1] \div 16384) % 16
Rsv(w)  == (w[1] \div 2048) % 8
Res(w)  == (w[1] \div 128) % 16
Bc(w)   == w[1] % 128
Pow8    == <<1, 8, 64, 512, 4096>>
\* digit at position p (1..15), 0..7
Digit(w, p) == (w[2 + ((p - 1) \div 5)] \div Pow8[5 - ((p - 1) % 5)]) % 8

NullWord == <<0, 0, 0, 0>>
IsNull(w) == w = NullWord

\* numeric order of words (for "increasing index order", "lowest index")
WordLess(a, b) ==
  \/ a[1] < b[1]
  \/ a[1] = b[1] /\ a[2] < b[2]
  \/ a[1] = b[1] /\ a[2] = b[2] /\ a[3] < b[3]
  \/ a[1] = b[1] /\ a[2] = b[2] /\ a[3] = b[3] /\ a[4] < b[4]
WordLeq(a, b) == a = b \/ WordLess(a, b)

-----------------------------------------------------------------------------
(* The documented validity predicate, literally (website/docs/library/index/cell.md and the
   statement of C01). *)
FirstNonZero(w, r) ==            \* first non-zero digit among positions 1..r, 0 if none
  LET S == {p \in 1..r : Digit(w, p) # 0}
  IN IF S = {} THEN 0 ELSE Digit(w, CHOOSE p \in S : \A q \in S : p <= q)

ValidCell(w) ==
  /\ High(w) = 0
  /\ Mode(w) = 1
  /\ Rsv(w) = 0
  /\ Bc(w) < NumBaseCells
  /\ \A p \in 1..Res(w) : Digit(w, p) \in 0..6
  /\ \A p \in (Res(w) + 1)..15 : Digit(w, p) = 7
  /\ (Bc(w) \in PentagonBaseCells => FirstNonZero(w, Res(w)) # 1)

-----------------------------------------------------------------------------
\* word <-> abstract cell
\* (sequences are built with tuple operators, never as lazily evaluated function constructors:
\*  TLC keeps [i \in S |-> e] unevaluated and chains of such closures overflow its stack)
AllDigits(w) == << (w[2] \div 4096) % 8, (w[2] \div 512) % 8, (w[2] \div 64) % 8, (w[2] \div 8) % 8, w[2] % 8,
                  (w[3] \div 4096) % 8, (w[3] \div 512) % 8, (w[3] \div 64) % 8, (w[3] \div 8) % 8, w[3] % 8,
                  (w[4] \div 4096) % 8, (w[4] \div 512) % 8, (w[4] \div 64) % 8, (w[4] \div 8) % 8, w[4] % 8 >>
DigitsOf(w) == SubSeq(AllDigits(w), 1, Res(w))
CellOf(w) == [r |-> Res(w), b |-> Bc(w), d |-> DigitsOf(w)]

Group(ds, lo) ==   \* the 15-bit group holding positions lo..lo+4, 7 beyond the resolution
  LET D(p) == IF p <= Len(ds) THEN ds[p] ELSE 7
  IN 4096 * D(lo) + 512 * D(lo + 1) + 64 * D(lo + 2) + 8 * D(lo + 3) + D(lo + 4)
WordOfMode(c, mode, rsv) ==
  << mode * 16384 + rsv * 2048 + c.r * 128 + c.b, Group(c.d, 1), Group(c.d, 6), Group(c.d, 11) >>
WordOf(c) == WordOfMode(c, 1, 0)

IsCell(c) == /\ c.r \in 0..15 /\ c.b \in 0..121 /\ Len(c.d) = c.r
             /\ \A p \in 1..c.r : c.d[p] \in 0..6
Lead(ds) == LET S == {i \in 1..Len(ds) : ds[i] # 0}
            IN IF S = {} THEN 0 ELSE ds[CHOOSE i \in S : \A j \in S : i <= j]
IsPentBC(b) == b \in PentagonBaseCells
ValidC(c) == IsCell(c) /\ (IsPentBC(c.b) => Lead(c.d) # 1)
IsPentC(c) == IsPentBC(c.b) /\ \A p \in 1..c.r : c.d[p] = 0
IsPentagonWord(w) == ValidCell(w) /\ IsPentC(CellOf(w))

\* set-of-words helpers used by the trace specifications
Range(s) == {s[i] : i \in 1..Len(s)}
NoDup(s) == Cardinality(Range(s)) = Len(s)
=============================================================================
