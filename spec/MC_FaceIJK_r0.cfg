SPECIFICATION Spec
CONSTANT R = 0
INVARIANT RoundTrip
INVARIANT LatticeAdjacency
INVARIANT FacesOK
INVARIANT VerticesOK
CHECK_DEADLOCK FALSE
