CONSTANTS NP = 3  PentParents <- P1  MaxN = 9  Extra = 3  ProbeMod = "n"
SPECIFICATION Spec
INVARIANT NoNever
INVARIANT Counted
INVARIANT ScanExact
INVARIANT LookupExact
CHECK_DEADLOCK FALSE
