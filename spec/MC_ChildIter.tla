----------------------------- MODULE MC_ChildIter -----------------------------
EXTENDS H3ChildIter
\* a hexagon base cell, a pentagon base cell, a pentagon at res 2, a hexagon just off the pentagon
\* chain, a hexagon whose digits end in 1 (the digit the skip logic must not touch), deep cells
MCParents == {
  [r |-> 0, b |-> 0, d |-> <<>>], [r |-> 0, b |-> 4, d |-> <<>>],
  [r |-> 2, b |-> 14, d |-> <<0, 0>>], [r |-> 2, b |-> 14, d |-> <<0, 2>>],
  [r |-> 3, b |-> 20, d |-> <<6, 1, 1>>], [r |-> 1, b |-> 117, d |-> <<0>>],
  [r |-> 11, b |-> 38, d |-> <<0,0,0,0,0,0,0,0,0,0,0>>], [r |-> 12, b |-> 9, d |-> <<1,1,1,1,1,1,1,1,1,1,1,1>>] }
=============================================================================
