-------------------------------- MODULE H3Api --------------------------------
(* The error-code contract of the public API (C12): for every entry point, the documented
   argument domains and the code an out-of-domain scalar must produce -- only what the properties
   and the documentation state (website/docs/library/errors.md, the argument checks listed in the
   anchors of C12), nothing inferred from the code.  An event is one call:
      [f |-> name, r |-> return code, g |-> canaries intact, plus the scalar arguments it was given]
   Required(e) is the set of codes the contract allows for that call. *)
EXTENDS H3Hierarchy

Codes == 0..15
E_DOMAIN == 2   E_LATLNG_DOMAIN == 3   E_RES_DOMAIN == 4   E_RES_MISMATCH == 12   E_MEMORY_BOUNDS == 14   E_OPTION_INVALID == 15
ResOK(r) == r \in 0..15
FlagsOK(fl) == fl \in 0..3                       \* containment modes 0..3, no other bits
NotSuccess == Codes \ {0}
Has2(e, k) == k \in DOMAIN e

ResOnly == {"getNumCells", "getHexagonAreaAvgKm2", "getHexagonAreaAvgM2", "getHexagonEdgeLengthAvgKm",
            "getHexagonEdgeLengthAvgM", "getPentagons"}
ResOfCell == {"cellToParent", "cellToChildrenSize", "cellToCenterChild", "cellToChildPos"}
KUnsafe == {"maxGridDiskSize", "gridDiskUnsafe", "gridDiskDistancesUnsafe"}
KSafe == {"gridDisk", "gridDiskDistances", "gridDiskDistancesSafe"}
PolyFns == {"polygonToCells", "maxPolygonToCellsSize", "polygonToCellsExperimental", "maxPolygonToCellsSizeExperimental"}
ModeFns == {"cellToLocalIj", "localIjToCell"}
Known == ResOnly \cup ResOfCell \cup KUnsafe \cup KSafe \cup PolyFns \cup ModeFns \cup
         {"latLngToCell", "cellToVertex", "h3ToString", "gridDistance", "childPosToCell", "other"}

Required(e) ==
  CASE e.f = "latLngToCell" ->
         IF ~ResOK(e.res) THEN {E_RES_DOMAIN} ELSE IF e.nf = 1 THEN {E_LATLNG_DOMAIN} ELSE {0}
    [] e.f \in ResOnly -> IF ResOK(e.res) THEN {0} ELSE {E_RES_DOMAIN}
    [] e.f \in ResOfCell -> IF ResOK(e.res) THEN Codes ELSE {E_RES_DOMAIN}
    [] e.f = "childPosToCell" ->
         IF ~ResOK(e.res) THEN {E_RES_DOMAIN}
         ELSE IF ~ValidCell(e.h) THEN Codes
         ELSE IF e.res < Res(e.h) THEN {E_RES_MISMATCH}
         ELSE IF e.p.s = 1 \/ ~BLess(e.p.l, ChildCount(CellOf(e.h), e.res - Res(e.h))) THEN {E_DOMAIN}    \* position outside 0..count-1
         ELSE {0}
    [] e.f \in KUnsafe -> IF e.k < 0 THEN {E_DOMAIN} ELSE Codes
    [] e.f \in KSafe -> IF e.k < 0 THEN NotSuccess ELSE Codes
    [] e.f \in PolyFns ->
         IF ~FlagsOK(e.flags) /\ ResOK(e.res) THEN {E_OPTION_INVALID}
         ELSE IF ~ResOK(e.res) /\ FlagsOK(e.flags) THEN (IF e.f \in {"polygonToCellsExperimental", "maxPolygonToCellsSizeExperimental"} THEN {E_RES_DOMAIN} ELSE NotSuccess)
         ELSE IF ~ResOK(e.res) THEN NotSuccess ELSE Codes
    [] e.f \in ModeFns -> IF e.mode # 0 THEN {E_OPTION_INVALID} ELSE Codes
    [] e.f = "cellToVertex" ->
         IF ValidCell(e.h) /\ e.vn \notin 0..(IF IsPentC(CellOf(e.h)) THEN 4 ELSE 5) THEN {E_DOMAIN} ELSE Codes
    [] e.f = "h3ToString" -> IF e.sz < 17 THEN {E_MEMORY_BOUNDS} ELSE {0}
    [] e.f = "gridDistance" ->
         IF ValidCell(e.h) /\ ValidCell(e.h2) /\ Res(e.h) # Res(e.h2) THEN {E_RES_MISMATCH} ELSE Codes
    [] OTHER -> Codes

\* the contract of one call
CallOK(e) ==
  /\ e.r \in Required(e)
  /\ e.g = 1                                             \* nothing written outside the documented-size buffers
  /\ (e.r = 0 => \A i \in 1..Len(e.cells) : IsNull(e.cells[i]) \/ ValidCell(e.cells[i]))   \* closure (C01)
\* the table is total and non-contradictory on the argument classes it distinguishes
ASSUME ContractTotal ==
  \A f \in Known : \A res \in {-1, 0, 15, 16} : \A k \in {-1, 0} : \A fl \in {0, 3, 4, 16} : \A m \in {0, 1} : \A nf \in {0, 1} :
     \A sz \in {0, 16, 17} : \A vn \in {-1, 0, 5, 6} :
       Required([f |-> f, res |-> res, k |-> k, flags |-> fl, mode |-> m, nf |-> nf, sz |-> sz, vn |-> vn,
                 h |-> <<16384, 32767, 32767, 32767>>, h2 |-> <<16512, 4095, 32767, 32767>>,
                 p |-> [s |-> 0, l |-> <<7, 0, 0, 0, 0>>]]) # {}
=============================================================================
