----------------------------- MODULE Trace_Threads -----------------------------
(* Binding of H3Threads to executions: a sequential reference run of every call of the workload
   (Ref events), then runs of the same calls on 2..16 threads (Ret events, each thread's log in its
   own program order; since the specification's steps of different threads commute, any merge of
   the per-thread logs is a behaviour iff each is).  Every return must carry the sequential digest
   and the hash of the library's writable segments must stay what it was at start-up.  A Race event
   (ThreadSanitizer report) is not a step of the specification. *)
EXTENDS TraceBase, Naturals
VARIABLES l, ref, g0, lastseq
vars == <<l, ref, g0, lastseq>>
Ev == Tr[l]
Init == l = 1 /\ ref = <<>> /\ g0 = <<>> /\ lastseq = [t \in 0..63 |-> 0]
Step ==
  \/ /\ Ev.e = "Start" /\ g0' = Ev.gh /\ ref' = [c \in {} |-> 0] /\ lastseq' = [t \in 0..63 |-> 0]
  \/ /\ Ev.e = "Ref" /\ Ev.gh = g0                          \* sequential reference run
     /\ ref' = [c \in (DOMAIN ref) \cup {Ev.c} |-> IF c = Ev.c THEN Ev.dig ELSE ref[c]]
     /\ (Ev.c \in DOMAIN ref => ref[Ev.c] = Ev.dig)          \* the sequential run itself is deterministic
     /\ UNCHANGED <<g0, lastseq>>
  \/ /\ Ev.e = "Round" /\ lastseq' = [t \in 0..63 |-> 0] /\ UNCHANGED <<ref, g0>>
  \/ /\ Ev.e = "Ret"
     /\ Ev.c \in DOMAIN ref /\ Ev.dig = ref[Ev.c]             \* concurrent result = sequential result
     /\ (Has(Ev, "gh") => Ev.gh = g0)                           \* library-owned memory unchanged (sampled)
     /\ Ev.seq = lastseq[Ev.t] + 1 /\ lastseq' = [lastseq EXCEPT ![Ev.t] = Ev.seq]
     /\ UNCHANGED <<ref, g0>>
Next == l <= Len(Tr) /\ Step /\ l' = l + 1
Spec == Init /\ [][Next]_vars
=============================================================================
