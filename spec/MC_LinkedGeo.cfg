CONSTANTS Origin = 14  MaxSize = 4
SPECIFICATION Spec
INVARIANT OutlineSemantics
CHECK_DEADLOCK FALSE
INVARIANT CornerCount
