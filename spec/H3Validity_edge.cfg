SPECIFICATION Spec
CONSTANT Kinds = {"edge"}
INVARIANT Agree
INVARIANT TypeOK
VIEW view
CHECK_DEADLOCK FALSE
