------------------------------ MODULE MC_FaceIJK ------------------------------
(* The face-lattice transcription explored over the complete grid of one resolution
   (state = one cell, step = move to a graph neighbour). *)
EXTENDS H3FaceIJK, FiniteSets, TLC
CONSTANT R
VARIABLE c
Init == c = [r |-> R, b |-> 0, d |-> SubSeq(<<0,0,0,0,0,0,0,0,0,0,0,0,0,0,0>>, 1, R)]
Next == \E dd \in Dirs : NbrOk(c, dd) /\ c' = NbrCell(c, dd)
Spec == Init /\ [][Next]_c

\* integer core of latLngToCell(cellToLatLng(h)) = h
RoundTrip == LET a == H3ToFaceIjk(c) IN FaceIjkToH3(a.f, a.c, c.r) = c
\* adjacency by the digit tables = adjacency on the face lattice
LatticeAdjacency == LatticeN(c) = N(c)
\* C19: a pentagon touches exactly five faces, a hexagon one or two; the home face of the address is among them
FacesOK == LET F == Faces(c) IN
           /\ F \subseteq 0..19
           /\ IF IsPentC(c) THEN Cardinality(F) = 5 ELSE Cardinality(F) \in {1, 2}
           /\ (~IsPentC(c) => H3ToFaceIjk(c).f \in F)
\* C08 (exact form): every corner of the cell is a corner of exactly two of its neighbours, and these two are adjacent
VertIds(x) == {VertexId(x, v) : v \in 1..NumVerts(x)}
VerticesOK ==
  /\ Cardinality(VertIds(c)) = NumVerts(c)
  /\ \A v \in 1..NumVerts(c) :
       LET id == VertexId(c, v)
           sh == {n \in N(c) : id \in VertIds(n)}
       IN Cardinality(sh) = 2 /\ \A x \in sh : \A y \in sh : x # y => y \in N(x)
  /\ \A n \in N(c) : Cardinality(VertIds(c) \cap VertIds(n)) = 2
=============================================================================
