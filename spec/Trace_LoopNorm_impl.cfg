CONSTANT M = 18
CONSTANT WHICH = "IMPL"
SPECIFICATION Spec
POSTCONDITION Accepted
CHECK_DEADLOCK FALSE
