SPECIFICATION Spec
CONSTANT R = 4
INVARIANT RoundTrip
INVARIANT LatticeAdjacency
INVARIANT FacesOK
INVARIANT VerticesOK
CHECK_DEADLOCK FALSE
