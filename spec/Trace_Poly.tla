------------------------------- MODULE Trace_Poly -------------------------------
(* C07 and C15: every recorded (polygon, resolution) fill.  f[1] = polygonToCells (legacy, centre containment),
   f[2..5] = polygonToCellsExperimental in modes CENTER, FULL, OVERLAPPING, OVERLAPPING_BBOX, each with the bound its
   size function announced.  WHICH = "C07" restricts the judgement to the two centre fills, "C15" to the modes,
   nesting, capacity and flag clauses. *)
EXTENDS H3Polygon, TraceBase
VARIABLE l
vars == <<l>>
WHICH == IF "WHICH" \in DOMAIN IOEnv THEN IOEnv.WHICH ELSE "ALL"
E_MEMORY_BOUNDS == 14
E_OPTION_INVALID == 15

C07OK(e) ==
  LET S1 == Range(e.f[1].out)   S2 == Range(e.f[2].out) IN
  /\ Basics(e.f[1], e.res) /\ Basics(e.f[2], e.res)
  /\ S1 \subseteq CandWords(e.cand) /\ S2 \subseteq CandWords(e.cand)
  /\ CenterOK(S1, e.cand)
  /\ CenterOK(S2, e.cand)
  /\ (Len(e.cand) <= 1200 => Closed(e.cand))

C15OK(e) ==
  LET C == Range(e.f[2].out)  F == Range(e.f[3].out)  O == Range(e.f[4].out)  B == Range(e.f[5].out) IN
  /\ \A k \in 2..5 : Basics(e.f[k], e.res) /\ Range(e.f[k].out) \subseteq CandWords(e.cand)
  /\ FullOK(F, e.cand)
  /\ OverlappingOK(O, e.cand)
  /\ F \subseteq C /\ C \subseteq O /\ O \subseteq B                       \* nested

\* a capacity below the number of cells: E_MEMORY_BOUNDS, nothing outside the buffer; at the number of cells: success
CapOK(e) ==
  /\ e.g = 1
  /\ IF BLess(e.cap.l, e.count.l) THEN e.rc = E_MEMORY_BOUNDS ELSE e.rc = 0 /\ e.w.l = e.count.l
  /\ BLeq(e.w.l, e.cap.l)

FlagsOK(e) == e.rmax = E_OPTION_INVALID /\ e.rc = E_OPTION_INVALID /\ e.w = 0

Ev == Tr[l]
\* (the IF forces TLC to evaluate the judgement as a plain expression instead of unfolding its quantifiers as an action)
EvOK(e) ==
  CASE e.e = "polyfill"  -> /\ (WHICH \in {"C07", "ALL"} => C07OK(e))
                            /\ (WHICH \in {"C15", "ALL"} => C15OK(e))
    [] e.e = "polycap"   -> (WHICH \in {"C15", "ALL"} => CapOK(e))
    [] e.e = "polyflags" -> (WHICH \in {"C15", "ALL"} => FlagsOK(e))
    [] OTHER -> FALSE
Step == IF EvOK(Ev) THEN TRUE ELSE FALSE
Init == l = 1
Next == l <= Len(Tr) /\ Step /\ l' = l + 1
Spec == Init /\ [][Next]_vars
=============================================================================
