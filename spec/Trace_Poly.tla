------------------------------- MODULE Trace_Poly -------------------------------
(* C07 and C15: every recorded (polygon, resolution) fill.  f[1] = polygonToCells (legacy, centre containment),
   f[2..5] = polygonToCellsExperimental in modes CENTER, FULL, OVERLAPPING, OVERLAPPING_BBOX, each with the bound its
   size function announced.  WHICH = "C07" restricts the judgement to the two centre fills ("C07L" / "C07E": to one of them, so
   that a finding about one algorithm cannot hide a violation of the other), "C15" to the modes, nesting, capacity and flag clauses. *)
EXTENDS H3Polygon, TraceBase
VARIABLE l
vars == <<l>>
WHICH == IF "WHICH" \in DOMAIN IOEnv THEN IOEnv.WHICH ELSE "ALL"
E_MEMORY_BOUNDS == 14
E_OPTION_INVALID == 15

\* one centre-containment fill: k = 1 polygonToCells (legacy), k = 2 polygonToCellsExperimental(CENTER)
CenterFillOK(e, k) ==
  LET S == Range(e.f[k].out) IN
  /\ Basics(e.f[k], e.res)
  /\ S \subseteq CandWords(e.cand)
  /\ CenterOK(S, e.cand)
  /\ (Len(e.cand) <= 1200 => Closed(e.cand))
C07OK(e) == CenterFillOK(e, 1) /\ CenterFillOK(e, 2)

C15OK(e) ==
  LET C == Range(e.f[2].out)  F == Range(e.f[3].out)  O == Range(e.f[4].out)  B == Range(e.f[5].out) IN
  /\ \A k \in 2..5 : Basics(e.f[k], e.res) /\ Range(e.f[k].out) \subseteq CandWords(e.cand)
  /\ FullOK(F, e.cand)
  /\ OverlappingOK(O, e.cand)
  /\ F \subseteq C /\ C \subseteq O /\ O \subseteq B                       \* nested

\* a capacity below the number of cells: E_MEMORY_BOUNDS, nothing outside the buffer; at the number of cells: success
CapOK(e) ==
  /\ e.g = 1
  /\ IF BLess(e.cap.l, e.count.l) THEN e.rc = E_MEMORY_BOUNDS ELSE e.rc = 0 /\ e.w.l = e.count.l
  /\ BLeq(e.w.l, e.cap.l)

\* conformance with the iterator model H3PolyIter (not promised by the API): the hierarchical fill emits cells in increasing
\* index order in every mode
OrderedOK(e) == \A k \in 2..5 : \A i \in 1..(Len(e.f[k].out) - 1) : WordLess(e.f[k].out[i], e.f[k].out[i + 1])

FlagsOK(e) == e.rmax = E_OPTION_INVALID /\ e.rc = E_OPTION_INVALID /\ e.w = 0

Ev == Tr[l]
\* (the IF forces TLC to evaluate the judgement as a plain expression instead of unfolding its quantifiers as an action)
EvOK(e) ==
  CASE e.e = "polyfill"  -> /\ (WHICH \in {"C07", "ALL"} => C07OK(e))
                            /\ (WHICH = "ORDER" => OrderedOK(e))
                            /\ (WHICH = "C07L" => CenterFillOK(e, 1))          \* the two algorithms judged separately
                            /\ (WHICH = "C07E" => CenterFillOK(e, 2))
                            /\ (WHICH \in {"C15", "ALL"} => C15OK(e))
    [] e.e = "polycap"   -> (WHICH \in {"C15", "ALL"} => CapOK(e))
    [] e.e = "polyflags" -> (WHICH \in {"C15", "ALL"} => FlagsOK(e))
    [] OTHER -> FALSE
Step == IF EvOK(Ev) THEN TRUE ELSE FALSE
Init == l = 1
Next == l <= Len(Tr) /\ Step /\ l' = l + 1
Spec == Init /\ [][Next]_vars
=============================================================================
