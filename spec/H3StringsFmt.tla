---------------------------- MODULE H3StringsFmt ----------------------------
EXTENDS H3Strings
-----------------------------------------------------------------------------
(* The formatter/parser pair as a nibble transducer, for all 16^16 words. *)
VARIABLES k,      \* next nibble to read, 1..16; 17 = done
          lead,   \* still skipping leading zeros
          emitted,\* number of characters written
          zeros   \* number of leading zero nibbles seen (history that matters for the length law)
vars == <<k, lead, emitted, zeros>>
FmtInit == k = 1 /\ lead = TRUE /\ emitted = 0 /\ zeros = 0
Step(n) ==
  /\ k <= 16
  /\ k' = k + 1
  /\ IF lead /\ n = 0 /\ k < 16
     THEN lead' = TRUE /\ emitted' = emitted /\ zeros' = zeros + 1
     ELSE /\ lead' = FALSE /\ emitted' = emitted + 1 /\ zeros' = zeros
          /\ HexVal(HexChar(n)) = n /\ IsHexDigit(HexChar(n))          \* each character decodes to its nibble
          /\ (HexChar(n) \in 48..57 \/ HexChar(n) \in 97..102)         \* lower case only
FmtNext == \E n \in 0..15 : Step(n)
FmtSpec == FmtInit /\ [][FmtNext]_vars
\* a step is always possible (the conjuncts above never block), and at the end the length law holds:
\* emitted = 16 - leading zeros >= 1, so right-aligned parsing restores every nibble position
LengthLaw == k = 17 => emitted = 16 - zeros /\ emitted \in 1..16
NeverBlocked == k <= 16 => \A n \in 0..15 : ENABLED Step(n)
=============================================================================
