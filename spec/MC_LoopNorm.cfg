CONSTANT M = 12
CONSTANT OnlySane = TRUE
SPECIFICATION Spec
INVARIANT InsideOK
INVARIANT WindingOK
INVARIANT BBoxOK
CHECK_DEADLOCK FALSE
