CONSTANT NC = 2
SPECIFICATION Spec
INVARIANT Satisfiable
INVARIANT NestedOnClear
CHECK_DEADLOCK FALSE
