CONSTANTS Origin = 20  MaxSize = 3
SPECIFICATION Spec
INVARIANT OutlineSemantics
CHECK_DEADLOCK FALSE
INVARIANT CornerCount
