CONSTANT R = 9
CONSTANT BUG = "none"
SPECIFICATION Spec
INVARIANT EndsOK
INVARIANT OnLattice
INVARIANT Contiguous
INVARIANT Near
INVARIANT ConvOK
CHECK_DEADLOCK FALSE
