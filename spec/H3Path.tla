--------------------------------- MODULE H3Path ---------------------------------
(* The line drawing of gridPathCells (localij.c: linear interpolation in cube coordinates + cubeRound), in exact rational
   arithmetic (C14).

   Cube coordinates <<i, j, k>> with i + j + k = 0.  For a line from a to b of hex distance d >= 1, sample n in 0..d is
   a + (b - a) * n / d; every coordinate is kept as an integer numerator over the common denominator d.  round() is C's
   (half away from zero).  cubeRound rounds the three coordinates and recomputes the one with the largest rounding error.

   Design claim (MC_Path, every a in a small ball and every b within R of a): the d + 1 samples start at a, end at b, and
   consecutive samples are lattice neighbours (cube distance exactly 1): the path is contiguous and has exactly
   gridDistance + 1 cells.  The code computes the steps in double precision ((b - a) * (1 / d)), so at exact ties (a sample
   on the border of two hexagons) it may take the other hexagon; both are neighbours of the samples before and after
   (TieFree / contiguity is checked for either choice by MC_Path's NextOK). *)
EXTENDS Integers, Sequences, FiniteSets
CONSTANT BUG        \* "none": the code as it is; "min": negative control (cubeRound recomputes the coordinate with the smallest error)
Abs(x) == IF x < 0 THEN -x ELSE x
Max3(a, b, c) == IF a >= b THEN (IF a >= c THEN a ELSE c) ELSE (IF b >= c THEN b ELSE c)
CubeDist(a, b) == Max3(Abs(a[1] - b[1]), Abs(a[2] - b[2]), Abs(a[3] - b[3]))
\* round(x / d), half away from zero, d > 0
RoundDiv(x, d) == IF x >= 0 THEN (2 * x + d) \div (2 * d) ELSE -((2 * (-x) + d) \div (2 * d))
\* cubeRound of the point <<x1/d, x2/d, x3/d>>
CubeRound(x, d) ==
  LET ri == RoundDiv(x[1], d)  rj == RoundDiv(x[2], d)  rk == RoundDiv(x[3], d)
      iD == Abs(ri * d - x[1])  jD == Abs(rj * d - x[2])  kD == Abs(rk * d - x[3])
  IN IF BUG = "min" THEN (IF iD < jD /\ iD < kD THEN <<-rj - rk, rj, rk>> ELSE IF jD < kD THEN <<ri, -ri - rk, rk>> ELSE <<ri, rj, -ri - rj>>)
     ELSE IF iD > jD /\ iD > kD THEN <<-rj - rk, rj, rk>>
     ELSE IF jD > kD THEN <<ri, -ri - rk, rk>>
     ELSE <<ri, rj, -ri - rj>>
Sample(a, b, n) == LET d == CubeDist(a, b) IN
  IF d = 0 THEN a ELSE CubeRound(<<a[1] * d + (b[1] - a[1]) * n, a[2] * d + (b[2] - a[2]) * n, a[3] * d + (b[3] - a[3]) * n>>, d)
Line(a, b) == [n \in 1..(CubeDist(a, b) + 1) |-> Sample(a, b, n - 1)]
\* a sample is a tie when two rounding errors are equal and maximal (the point lies on a hexagon border): the code, working in
\* doubles, may land on either side
IsTie(a, b, n) == LET d == CubeDist(a, b) IN d > 0 /\
  LET x == <<a[1] * d + (b[1] - a[1]) * n, a[2] * d + (b[2] - a[2]) * n, a[3] * d + (b[3] - a[3]) * n>>
      r == [q \in 1..3 |-> RoundDiv(x[q], d)]
      e == [q \in 1..3 |-> Abs(r[q] * d - x[q])]
      m == Max3(e[1], e[2], e[3])
  IN \/ \E q \in 1..3 : 2 * e[q] = d                                              \* a coordinate exactly half way: round() itself is on the edge
     \/ r[1] + r[2] + r[3] # 0 /\ Cardinality({q \in 1..3 : e[q] = m}) >= 2       \* a correction is needed and two errors tie for the largest
\* ijk+ (two of the three non-negative... normal form with min component 0) <-> cube, as ijkToCube / cubeToIjk
ToCube(c) == <<-c[1] + c[3], c[2] - c[3], c[1] - c[2]>>
FromCube(q) == LET i == -q[1]  j == q[2]  m == IF i < j THEN (IF i < 0 THEN i ELSE 0) ELSE (IF j < 0 THEN j ELSE 0)
               IN <<i - m, j - m, 0 - m>>
=============================================================================
