CONSTANTS Pent <- OnlyPent  Target = 2  Assume = "both"
SPECIFICATION SpecP
INVARIANT Ordered
INVARIANT Exact
PROPERTY Terminates
