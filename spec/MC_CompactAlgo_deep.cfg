CONSTANTS NP = 4  PentParents <- P1  MaxN = 9  Extra = 2  ProbeMod = "n"
SPECIFICATION Spec
INVARIANT NoNever
INVARIANT Counted
INVARIANT ScanExact
INVARIANT LookupExact
CHECK_DEADLOCK FALSE
