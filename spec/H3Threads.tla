------------------------------ MODULE H3Threads ------------------------------
(* Re-entrancy (C18): the library keeps no mutable global state, so calls made concurrently by
   several threads on caller-owned buffers return exactly what the same calls return when made
   one after another, and the library-owned memory never changes.

   Threads take Begin / End steps around each call.  In the design as specified (Variant = "pure")
   a call's result is a function of its arguments only and no step touches libGlobals.  Variant =
   "scratch" is a deliberately wrong design (a call parks an intermediate value in a library-owned
   cell between its two steps -- the shape of a static cache / scratch buffer); TLC must find the
   interleaving that makes a result differ from the sequential one (negative control). *)
EXTENDS Naturals, FiniteSets, TLC
CONSTANTS Threads, Calls, Variant, MaxCalls
F(c) == c * 7 + 3                                  \* the (abstract) sequential result of call c

VARIABLES pc,          \* thread -> "idle" | "in"
          cur,         \* thread -> call in progress
          done,        \* thread -> number of calls completed
          result,      \* thread -> last returned result
          libGlobals   \* the library-owned mutable memory (must stay what it was)
tvars == <<pc, cur, done, result, libGlobals>>

TInit == /\ pc = [t \in Threads |-> "idle"] /\ cur = [t \in Threads |-> 0] /\ done = [t \in Threads |-> 0]
         /\ result = [t \in Threads |-> F(0)] /\ libGlobals = 0
Begin(t, c) ==
  /\ pc[t] = "idle" /\ done[t] < MaxCalls
  /\ pc' = [pc EXCEPT ![t] = "in"] /\ cur' = [cur EXCEPT ![t] = c]
  /\ libGlobals' = IF Variant = "scratch" THEN c ELSE libGlobals
  /\ UNCHANGED <<done, result>>
End(t) ==
  /\ pc[t] = "in"
  /\ pc' = [pc EXCEPT ![t] = "idle"] /\ done' = [done EXCEPT ![t] = done[t] + 1]
  /\ result' = [result EXCEPT ![t] = IF Variant = "scratch" THEN F(libGlobals) ELSE F(cur[t])]
  /\ UNCHANGED <<cur, libGlobals>>
TNext == \E t \in Threads : (\E c \in Calls : Begin(t, c)) \/ End(t)
TSpec == TInit /\ [][TNext]_tvars

\* concurrent = sequential: whenever a thread is idle after a call, it holds that call's sequential result
SequentialResults == \A t \in Threads : (pc[t] = "idle" /\ done[t] > 0) => result[t] = F(cur[t])
NoGlobalWrites == libGlobals = 0
=============================================================================
