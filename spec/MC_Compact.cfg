SPECIFICATION Spec
CONSTANT Roots <- MCRoots
CONSTANT PartMin = 5
INVARIANT CompactIsCanonical
CHECK_DEADLOCK FALSE
