SPECIFICATION TSpec
CONSTANTS Threads = {1, 2, 3}
 Calls = {1, 2}
 Variant = "pure"
 MaxCalls = 2
INVARIANT SequentialResults
INVARIANT NoGlobalWrites
CHECK_DEADLOCK FALSE
