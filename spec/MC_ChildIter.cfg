SPECIFICATION Spec
CONSTANT Parents <- MCParents
CONSTANT MaxN = 4
INVARIANT EmittedOK
INVARIANT DoneOK
PROPERTY Terminates
CHECK_DEADLOCK FALSE
