CONSTANTS Pent <- PentHex  Target = 1  Assume = "none"
SPECIFICATION Spec
INVARIANT Ordered
INVARIANT Exact
PROPERTY Terminates
